(* Proofs about Model/SysInterval.v (property C16).  No axioms, no admits. *)
From Coq Require Import ZArith List Bool Arith Lia.
From FV.Model Require Import SysInterval.
Import ListNotations.
Open Scope Z_scope.

(* ====================================================================== *)
(* lists                                                                    *)
(* ====================================================================== *)
Lemma nth_error_upd : forall {A} (l : list A) n m x,
  nth_error (upd n x l) m =
  if Nat.eqb n m then match nth_error l n with Some _ => Some x | None => None end
  else nth_error l m.
Proof.
  induction l as [|y l IH]; intros n m x.
  - destruct n, m; cbn; try reflexivity; destruct (Nat.eqb n m); reflexivity.
  - destruct n as [|n], m as [|m]; try reflexivity.
    cbn [upd nth_error Nat.eqb]. apply IH.
Qed.

Lemma length_upd : forall {A} (l : list A) n x, length (upd n x l) = length l.
Proof.
  induction l as [|y l IH]; intros [|n] x; cbn [upd length]; try reflexivity.
  now rewrite IH.
Qed.

Lemma nth_error_snoc : forall {A} (l : list A) x m,
  nth_error (l ++ [x]) m =
  if Nat.ltb m (length l) then nth_error l m
  else if Nat.eqb m (length l) then Some x else None.
Proof.
  intros A l x m. destruct (Nat.ltb_spec m (length l)) as [Hlt|Hge].
  - now apply nth_error_app1.
  - rewrite nth_error_app2 by exact Hge.
    destruct (Nat.eqb_spec m (length l)) as [->|Hne].
    + now rewrite Nat.sub_diag.
    + destruct (m - length l)%nat as [|k] eqn:E; [lia|]. cbn. now destruct k.
Qed.

Lemma nth_error_cancel_fl : forall i fls m,
  nth_error (cancel_fl i fls) m =
  match nth_error fls m with
  | Some fl => Some (if Nat.eqb i m then mkF (f_pc fl) true else fl)
  | None => None
  end.
Proof.
  intros i fls m. unfold cancel_fl. destruct (nth_error fls i) as [fl|] eqn:Ei.
  - rewrite nth_error_upd, Ei. destruct (Nat.eqb_spec i m) as [->|Hne].
    + now rewrite Ei.
    + now destruct (nth_error fls m).
  - destruct (Nat.eqb_spec i m) as [->|Hne].
    + now rewrite Ei.
    + now destruct (nth_error fls m).
Qed.

(* ====================================================================== *)
(* wrap-around arithmetic                                                   *)
(* ====================================================================== *)
Lemma wrap64_add_l : forall a b, wrap64 (wrap64 a + b) = wrap64 (a + b).
Proof.
  intros a b. unfold wrap64, two63, two64.
  replace (a + 9223372036854775808) with (a + 9223372036854775808 + 0) by lia.
  f_equal.
  replace ((a + 9223372036854775808 + 0) mod 18446744073709551616 - 9223372036854775808 + b + 9223372036854775808)
    with ((a + 9223372036854775808 + 0) mod 18446744073709551616 + b) by lia.
  rewrite Z.add_0_r. rewrite Zplus_mod_idemp_l. f_equal. lia.
Qed.
Lemma wrap64_0 : wrap64 0 = 0.
Proof. reflexivity. Qed.

(* ====================================================================== *)
(* the step function as a relation                                          *)
(* ====================================================================== *)
Inductive Step (c : cfg) (s : state) : tid -> state -> Prop :=
| SULock : forall g cl rest,
    nth_error (users s) g = Some (mkU UIdle (cl :: rest)) -> mu s = None ->
    Step c s (U g) (mkSt (upd g (mkU UCrit (cl :: rest)) (users s)) (flushers s)
                         (Some (OU g)) (rc s) (cl :: lock_log s))
| SUBody : forall g cl rest,
    nth_error (users s) g = Some (mkU UCrit (cl :: rest)) ->
    Step c s (U g) (mkSt (upd g (mkU UUnlock (cl :: rest)) (users s))
                         (snd (body c g cl (rc s) (flushers s))) (mu s)
                         (fst (body c g cl (rc s) (flushers s))) (lock_log s))
| SUUnl : forall g cl rest,
    nth_error (users s) g = Some (mkU UUnlock (cl :: rest)) ->
    Step c s (U g) (mkSt (upd g (mkU UIdle rest) (users s)) (flushers s) None (rc s) (lock_log s))
| STick : forall f b,
    nth_error (flushers s) f = Some (mkF FWait b) ->
    Step c s (Tick f) (mkSt (users s) (upd f (mkF FTick b) (flushers s)) (mu s) (rc s) (lock_log s))
| SFDoneArm : forall f,
    nth_error (flushers s) f = Some (mkF FWait true) ->
    Step c s (F f) (mkSt (users s) (upd f (mkF FDone true) (flushers s)) (mu s) (rc s) (lock_log s))
| SFLock : forall f b,
    nth_error (flushers s) f = Some (mkF FTick b) -> mu s = None ->
    Step c s (F f) (mkSt (users s) (upd f (mkF FLocked b) (flushers s)) (Some (OF f)) (rc s) (lock_log s))
| SFCheck : forall f b,
    nth_error (flushers s) f = Some (mkF FLocked b) ->
    Step c s (F f) (mkSt (users s) (upd f (mkF (if b then FCancelled else FChecked) b) (flushers s))
                         (mu s) (rc s) (lock_log s))
| SFCancelRet : forall f b,
    nth_error (flushers s) f = Some (mkF FCancelled b) ->
    Step c s (F f) (mkSt (users s) (upd f (mkF FDone b) (flushers s))
                         (if flusher_unlocks_on_cancel c then None else mu s) (rc s) (lock_log s))
| SFPersist : forall f b,
    nth_error (flushers s) f = Some (mkF FChecked b) ->
    Step c s (F f) (mkSt (users s) (upd f (mkF FPersisted b) (flushers s)) (mu s)
                         (persist (OF f) (stamp (rc s))) (lock_log s))
| SFUnl : forall f b,
    nth_error (flushers s) f = Some (mkF FPersisted b) ->
    Step c s (F f) (mkSt (users s) (upd f (mkF FWait b) (flushers s)) None (rc s) (lock_log s)).

Lemma step_Step : forall c s t s', step c s t = Some s' -> Step c s t s'.
Proof.
  intros c s t s' H. destruct t as [g|f|f]; cbn [step] in H.
  - destruct (nth_error (users s) g) as [[pc prog]|] eqn:En; [|discriminate].
    cbn [u_prog u_pc] in H. destruct prog as [|cl rest]; [discriminate|].
    destruct pc.
    + destruct (mu s) eqn:Em; [discriminate|]. inversion H; subst. now apply SULock.
    + inversion H; subst. now apply SUBody.
    + inversion H; subst. now apply SUUnl with (cl := cl).
  - destruct (nth_error (flushers s) f) as [[pc b]|] eqn:En; [|discriminate].
    cbn [f_pc f_cancelled] in H. destruct pc.
    + destruct b; [|discriminate]. inversion H; subst. now apply SFDoneArm.
    + destruct (mu s) eqn:Em; [discriminate|]. inversion H; subst. now apply SFLock.
    + inversion H; subst. now apply SFCheck.
    + inversion H; subst. now apply SFCancelRet.
    + inversion H; subst. now apply SFPersist.
    + inversion H; subst. now apply SFUnl.
    + discriminate.
  - destruct (nth_error (flushers s) f) as [[pc b]|] eqn:En; [|discriminate].
    cbn [f_pc f_cancelled] in H. destruct pc; try discriminate.
    inversion H; subst. now apply STick.
Qed.

(* ====================================================================== *)
(* what a critical-section body does to the flusher table                   *)
(* ====================================================================== *)
Lemma body_fls_back : forall c g cl r fls m fl',
  nth_error (snd (body c g cl r fls)) m = Some fl' ->
  (exists fl, nth_error fls m = Some fl /\ f_pc fl' = f_pc fl /\
              (f_cancelled fl = true -> f_cancelled fl' = true)) \/
  (fl' = mkF FWait false /\ m = length fls /\ cl = Begin /\ canceler r = None /\ with_flusher c = true).
Proof.
  intros c g cl r fls m fl' H.
  assert (Hreset : forall r0, nth_error (snd (do_reset r0 fls)) m = Some fl' ->
     exists fl, nth_error fls m = Some fl /\ f_pc fl' = f_pc fl /\
                (f_cancelled fl = true -> f_cancelled fl' = true)).
  { intros r0 H0. unfold do_reset in H0. cbn [snd] in H0.
    destruct (canceler r0) as [i|].
    - rewrite nth_error_cancel_fl in H0. destruct (nth_error fls m) as [fl|]; [|discriminate].
      exists fl. split; [reflexivity|]. inversion H0; subst.
      destruct (Nat.eqb i m); cbn; auto.
    - exists fl'. auto. }
  destruct cl; cbn [body snd] in H;
    try (left; exists fl'; now auto);
    try (left; now apply Hreset with (r0 := if stamped r then persist (OU g) r else r));
    try (left; now apply Hreset with (r0 := r)).
  destruct (canceler r) as [i|] eqn:Ec.
  - left; exists fl'; auto.
  - destruct (with_flusher c) eqn:Ew; cbn [snd] in H.
    + rewrite nth_error_snoc in H.
      destruct (Nat.ltb m (length fls)).
      * left; exists fl'; auto.
      * destruct (Nat.eqb_spec m (length fls)); [|discriminate].
        inversion H; subst. right. auto.
    + left; exists fl'; auto.
Qed.

Lemma body_fls_fwd : forall c g cl r fls m fl,
  nth_error fls m = Some fl ->
  exists fl', nth_error (snd (body c g cl r fls)) m = Some fl' /\ f_pc fl' = f_pc fl /\
              (f_cancelled fl = true -> f_cancelled fl' = true).
Proof.
  intros c g cl r fls m fl H.
  assert (Hreset : forall r0, exists fl', nth_error (snd (do_reset r0 fls)) m = Some fl' /\
             f_pc fl' = f_pc fl /\ (f_cancelled fl = true -> f_cancelled fl' = true)).
  { intros r0. unfold do_reset. cbn [snd]. destruct (canceler r0) as [i|].
    - rewrite nth_error_cancel_fl, H. eexists; split; [reflexivity|].
      destruct (Nat.eqb i m); cbn; auto.
    - exists fl; auto. }
  destruct cl; cbn [body snd]; try (exists fl; now auto); try apply Hreset.
  destruct (canceler r) as [i|]; [exists fl; now auto|].
  destruct (with_flusher c); cbn [snd]; [|exists fl; now auto].
  exists fl. split; [|auto]. rewrite nth_error_snoc.
  assert (Hlt : (m < length fls)%nat) by (apply nth_error_Some; congruence).
  apply Nat.ltb_lt in Hlt. now rewrite Hlt.
Qed.

(* ====================================================================== *)
(* Invariant, part 1: the mutex and the program counters agree              *)
(* ====================================================================== *)
Record InvMu (s : state) : Prop := {
  mu_u : forall g, mu s = Some (OU g) ->
         exists u, nth_error (users s) g = Some u /\ u_holds (u_pc u) = true /\ u_prog u <> [];
  u_mu : forall g u, nth_error (users s) g = Some u -> u_holds (u_pc u) = true -> mu s = Some (OU g);
  mu_f : forall f, mu s = Some (OF f) ->
         exists fl, nth_error (flushers s) f = Some fl /\ f_holds (f_pc fl) = true;
  f_mu : forall f fl, nth_error (flushers s) f = Some fl -> f_holds (f_pc fl) = true -> mu s = Some (OF f)
}.

Lemma InvMu_init : forall progs, InvMu (init progs).
Proof.
  intros progs. constructor; cbn [init mu users flushers]; try discriminate.
  - intros g u Hn Hh. apply nth_error_In, in_map_iff in Hn. destruct Hn as [p [<- _]]. discriminate.
  - intros f fl Hn. destruct f; discriminate.
Qed.

Ltac nu :=
  repeat match goal with
  | H : context [nth_error (upd _ _ _) _] |- _ => rewrite nth_error_upd in H
  | |- context [nth_error (upd _ _ _) _] => rewrite nth_error_upd
  end.

Section Repaired.
Variable c : cfg.
Hypothesis Hc : flusher_unlocks_on_cancel c = true.

Lemma InvMu_step : forall s t s', InvMu s -> Step c s t s' -> InvMu s'.
Proof.
  intros s t s' I HS.
  destruct HS as [g cl rest Hn Hm|g cl rest Hn|g cl rest Hn|f b Hn|f Hn|f b Hn Hm|f b Hn|f b Hn|f b Hn|f b Hn];
    constructor; cbn [mu users flushers]; try rewrite Hc.
  (* ---- ULock ---- *)
  - intros g' E; inversion E; subst g'. nu. rewrite Nat.eqb_refl, Hn.
    eexists; repeat split; cbn; congruence.
  - intros g' u. nu. destruct (Nat.eqb_spec g g') as [->|Hne]; [reflexivity|].
    intros Hn' Hh. pose proof (u_mu _ I _ _ Hn' Hh). congruence.
  - discriminate.
  - intros f fl Hn' Hh. pose proof (f_mu _ I _ _ Hn' Hh). congruence.
  (* ---- UBody ---- *)
  - pose proof (u_mu _ I _ _ Hn eq_refl) as Hmu. intros g' E. rewrite Hmu in E; inversion E; subst g'.
    nu. rewrite Nat.eqb_refl, Hn. eexists; repeat split; cbn; congruence.
  - pose proof (u_mu _ I _ _ Hn eq_refl) as Hmu. intros g' u. nu.
    destruct (Nat.eqb_spec g g') as [->|Hne]; [intros; exact Hmu|]. apply (u_mu _ I).
  - pose proof (u_mu _ I _ _ Hn eq_refl) as Hmu. intros f E. congruence.
  - pose proof (u_mu _ I _ _ Hn eq_refl) as Hmu. intros f fl' Hn' Hh.
    destruct (body_fls_back _ _ _ _ _ _ _ Hn') as [[fl [Hfl [Hpc _]]]|[-> _]]; [|discriminate].
    rewrite Hpc in Hh. pose proof (f_mu _ I _ _ Hfl Hh). congruence.
  (* ---- UUnlock ---- *)
  - discriminate.
  - pose proof (u_mu _ I _ _ Hn eq_refl) as Hmu. intros g' u. nu.
    destruct (Nat.eqb_spec g g') as [->|Hne].
    + rewrite Hn. intros E; inversion E; subst; discriminate.
    + intros Hn' Hh. pose proof (u_mu _ I _ _ Hn' Hh). congruence.
  - discriminate.
  - pose proof (u_mu _ I _ _ Hn eq_refl) as Hmu. intros f fl Hn' Hh.
    pose proof (f_mu _ I _ _ Hn' Hh). congruence.
  (* ---- Tick ---- *)
  - apply (mu_u _ I).
  - apply (u_mu _ I).
  - intros f' E. destruct (mu_f _ I _ E) as [fl [Hfl Hh]]. nu.
    destruct (Nat.eqb_spec f f') as [->|Hne]; [|eauto]. rewrite Hn in Hfl; inversion Hfl; subst; discriminate.
  - intros f' fl. nu. destruct (Nat.eqb_spec f f') as [->|Hne]; [|apply (f_mu _ I)].
    rewrite Hn. intros E; inversion E; subst; discriminate.
  (* ---- Done arm ---- *)
  - apply (mu_u _ I).
  - apply (u_mu _ I).
  - intros f' E. destruct (mu_f _ I _ E) as [fl [Hfl Hh]]. nu.
    destruct (Nat.eqb_spec f f') as [->|Hne]; [|eauto]. rewrite Hn in Hfl; inversion Hfl; subst; discriminate.
  - intros f' fl. nu. destruct (Nat.eqb_spec f f') as [->|Hne]; [|apply (f_mu _ I)].
    rewrite Hn. intros E; inversion E; subst; discriminate.
  (* ---- FLock ---- *)
  - discriminate.
  - intros g u Hn' Hh. pose proof (u_mu _ I _ _ Hn' Hh). congruence.
  - intros f' E; inversion E; subst f'. nu. rewrite Nat.eqb_refl, Hn. eexists; split; reflexivity.
  - intros f' fl. nu. destruct (Nat.eqb_spec f f') as [->|Hne]; [reflexivity|].
    intros Hn' Hh. pose proof (f_mu _ I _ _ Hn' Hh). congruence.
  (* ---- FCheck ---- *)
  - apply (mu_u _ I).
  - apply (u_mu _ I).
  - pose proof (f_mu _ I _ _ Hn eq_refl) as Hmu. intros f' E. rewrite Hmu in E; inversion E; subst f'.
    nu. rewrite Nat.eqb_refl, Hn. eexists; split; [reflexivity|]. now destruct b.
  - pose proof (f_mu _ I _ _ Hn eq_refl) as Hmu. intros f' fl. nu.
    destruct (Nat.eqb_spec f f') as [->|Hne]; [intros; exact Hmu|apply (f_mu _ I)].
  (* ---- FCancelRet (unlocks) ---- *)
  - discriminate.
  - pose proof (f_mu _ I _ _ Hn eq_refl) as Hmu. intros g u Hn' Hh.
    pose proof (u_mu _ I _ _ Hn' Hh). congruence.
  - discriminate.
  - pose proof (f_mu _ I _ _ Hn eq_refl) as Hmu. intros f' fl. nu.
    destruct (Nat.eqb_spec f f') as [->|Hne].
    + rewrite Hn. intros E; inversion E; subst; discriminate.
    + intros Hn' Hh. pose proof (f_mu _ I _ _ Hn' Hh). congruence.
  (* ---- FPersist ---- *)
  - apply (mu_u _ I).
  - apply (u_mu _ I).
  - pose proof (f_mu _ I _ _ Hn eq_refl) as Hmu. intros f' E. rewrite Hmu in E; inversion E; subst f'.
    nu. rewrite Nat.eqb_refl, Hn. eexists; split; reflexivity.
  - pose proof (f_mu _ I _ _ Hn eq_refl) as Hmu. intros f' fl. nu.
    destruct (Nat.eqb_spec f f') as [->|Hne]; [intros; exact Hmu|apply (f_mu _ I)].
  (* ---- FUnlock ---- *)
  - discriminate.
  - pose proof (f_mu _ I _ _ Hn eq_refl) as Hmu. intros g u Hn' Hh.
    pose proof (u_mu _ I _ _ Hn' Hh). congruence.
  - discriminate.
  - pose proof (f_mu _ I _ _ Hn eq_refl) as Hmu. intros f' fl. nu.
    destruct (Nat.eqb_spec f f') as [->|Hne].
    + rewrite Hn. intros E; inversion E; subst; discriminate.
    + intros Hn' Hh. pose proof (f_mu _ I _ _ Hn' Hh). congruence.
Qed.

(* ====================================================================== *)
(* Invariant, part 2: canceler and the flushers' contexts                   *)
(* ====================================================================== *)
Definition CanOk (r : recst) (fls : list flusher) : Prop :=
  (forall i, canceler r = Some i -> exists fl, nth_error fls i = Some fl /\ f_cancelled fl = false) /\
  (forall f fl, nth_error fls f = Some fl -> f_cancelled fl = false -> canceler r = Some f).

Lemma CanOk_reset : forall r fls, CanOk r fls -> CanOk (fst (do_reset r fls)) (snd (do_reset r fls)).
Proof.
  intros r fls [H1 H2]. unfold do_reset; cbn [fst snd canceler]. split; [discriminate|].
  intros f fl' Hn Hu. exfalso. destruct (canceler r) as [i|] eqn:Ec.
  - rewrite nth_error_cancel_fl in Hn. destruct (nth_error fls f) as [fl|] eqn:Ef; [|discriminate].
    inversion Hn; subst fl'. destruct (Nat.eqb_spec i f) as [->|Hne]; [discriminate|].
    pose proof (H2 _ _ Ef Hu). congruence.
  - pose proof (H2 _ _ Hn Hu). congruence.
Qed.

Lemma CanOk_body : forall g cl r fls, CanOk r fls -> CanOk (fst (body c g cl r fls)) (snd (body c g cl r fls)).
Proof.
  intros g cl r fls H. destruct cl; cbn [body]; try exact H.
  - (* Begin *) destruct H as [H1 H2]. destruct (canceler r) as [i|] eqn:Ec.
    + cbn [fst snd]. split; cbn [canceler]; [exact H1|]. intros f fl Hn Hu. now apply H2 with fl.
    + destruct (with_flusher c); cbn [fst snd]; split; cbn [canceler].
      * intros i E; inversion E; subst i. exists (mkF FWait false). split; [|reflexivity].
        rewrite nth_error_snoc, Nat.ltb_irrefl, Nat.eqb_refl. reflexivity.
      * intros f fl Hn Hu. rewrite nth_error_snoc in Hn.
        destruct (Nat.ltb f (length fls)).
        -- pose proof (H2 _ _ Hn Hu). congruence.
        -- destruct (Nat.eqb_spec f (length fls)); [congruence|discriminate].
      * discriminate.
      * intros f fl Hn Hu. pose proof (H2 _ _ Hn Hu). congruence.
  - (* End *) destruct (with_flusher c); cbn [fst snd]; exact H.
  - (* EndTest *) apply CanOk_reset. destruct (stamped r); exact H.
  - (* Reset *) apply CanOk_reset. exact H.
Qed.

Record InvFl (s : state) : Prop := {
  can_ok : CanOk (rc s) (flushers s);
  chk_unc : forall f fl, nth_error (flushers s) f = Some fl ->
            f_pc fl = FChecked \/ f_pc fl = FPersisted -> f_cancelled fl = false;
  can_c : forall f fl, nth_error (flushers s) f = Some fl ->
          f_pc fl = FCancelled \/ f_pc fl = FDone -> f_cancelled fl = true
}.

Lemma InvFl_init : forall progs, InvFl (init progs).
Proof.
  intros progs. constructor; cbn [init rc flushers].
  - split; [discriminate|]. intros f fl Hn; destruct f; discriminate.
  - intros f fl Hn; destruct f; discriminate.
  - intros f fl Hn; destruct f; discriminate.
Qed.

(* a flusher step that keeps the cancelled flag and the canceler *)
Lemma CanOk_upd : forall r r' fls f pc pc' b,
  nth_error fls f = Some (mkF pc b) -> canceler r' = canceler r ->
  CanOk r fls -> CanOk r' (upd f (mkF pc' b) fls).
Proof.
  intros r r' fls f pc pc' b Hn Hr [H1 H2]. split; rewrite Hr.
  - intros i Ei. destruct (H1 _ Ei) as [fl [Hfl Hu]]. nu.
    destruct (Nat.eqb_spec f i) as [->|Hne]; [|eauto].
    rewrite Hn in *. inversion Hfl; subst. eexists; split; [reflexivity|exact Hu].
  - intros f' fl. nu. destruct (Nat.eqb_spec f f') as [->|Hne]; [|apply H2].
    rewrite Hn. intros E Hu; inversion E; subst. now apply H2 with (mkF pc b).
Qed.

Lemma InvFl_step : forall s t s', InvMu s -> InvFl s -> Step c s t s' -> InvFl s'.
Proof.
  intros s t s' IM I HS.
  destruct HS as [g cl rest Hn Hm|g cl rest Hn|g cl rest Hn|f b Hn|f Hn|f b Hn Hm|f b Hn|f b Hn|f b Hn|f b Hn];
    constructor; cbn [rc flushers];
    try exact (can_ok _ I); try exact (chk_unc _ I); try exact (can_c _ I);
    try (eapply CanOk_upd; [exact Hn|reflexivity|exact (can_ok _ I)]).
  (* ---- UBody ---- *)
  - apply CanOk_body, (can_ok _ I).
  - pose proof (u_mu _ IM _ _ Hn eq_refl) as Hmu. intros f fl' Hn' Hpc.
    destruct (body_fls_back _ _ _ _ _ _ _ Hn') as [[fl [Hfl [Epc _]]]|[-> _]].
    + assert (Hh : f_holds (f_pc fl) = true) by (rewrite <- Epc; destruct Hpc as [-> | ->]; reflexivity).
      pose proof (f_mu _ IM _ _ Hfl Hh). congruence.
    + reflexivity.
  - pose proof (u_mu _ IM _ _ Hn eq_refl) as Hmu. intros f fl' Hn' Hpc.
    destruct (body_fls_back _ _ _ _ _ _ _ Hn') as [[fl [Hfl [Epc Hcc]]]|[-> _]].
    + apply Hcc. apply (can_c _ I _ _ Hfl). now rewrite <- Epc.
    + cbn in Hpc. destruct Hpc; discriminate.
  (* ---- Tick ---- *)
  - intros f' fl. nu. destruct (Nat.eqb_spec f f') as [->|Hne]; [|apply (chk_unc _ I)].
    rewrite Hn. intros E [Hp|Hp]; inversion E; subst; discriminate.
  - intros f' fl. nu. destruct (Nat.eqb_spec f f') as [->|Hne]; [|apply (can_c _ I)].
    rewrite Hn. intros E [Hp|Hp]; inversion E; subst; discriminate.
  (* ---- Done arm ---- *)
  - intros f' fl. nu. destruct (Nat.eqb_spec f f') as [->|Hne]; [|apply (chk_unc _ I)].
    rewrite Hn. intros E [Hp|Hp]; inversion E; subst; discriminate.
  - intros f' fl. nu. destruct (Nat.eqb_spec f f') as [->|Hne]; [|apply (can_c _ I)].
    rewrite Hn. intros E _; inversion E; subst; reflexivity.
  (* ---- FLock ---- *)
  - intros f' fl. nu. destruct (Nat.eqb_spec f f') as [->|Hne]; [|apply (chk_unc _ I)].
    rewrite Hn. intros E [Hp|Hp]; inversion E; subst; discriminate.
  - intros f' fl. nu. destruct (Nat.eqb_spec f f') as [->|Hne]; [|apply (can_c _ I)].
    rewrite Hn. intros E [Hp|Hp]; inversion E; subst; discriminate.
  (* ---- FCheck ---- *)
  - intros f' fl. nu. destruct (Nat.eqb_spec f f') as [->|Hne]; [|apply (chk_unc _ I)].
    rewrite Hn. intros E [Hp|Hp]; inversion E; subst; destruct b; try discriminate; reflexivity.
  - intros f' fl. nu. destruct (Nat.eqb_spec f f') as [->|Hne]; [|apply (can_c _ I)].
    rewrite Hn. intros E [Hp|Hp]; inversion E; subst; destruct b; try discriminate; reflexivity.
  (* ---- FCancelRet ---- *)
  - intros f' fl. nu. destruct (Nat.eqb_spec f f') as [->|Hne]; [|apply (chk_unc _ I)].
    rewrite Hn. intros E [Hp|Hp]; inversion E; subst; discriminate.
  - intros f' fl. nu. destruct (Nat.eqb_spec f f') as [->|Hne]; [|apply (can_c _ I)].
    rewrite Hn. intros E _; inversion E; subst. cbn. apply (can_c _ I _ _ Hn). now left.
  (* ---- FPersist ---- *)
  - intros f' fl. nu. destruct (Nat.eqb_spec f f') as [->|Hne]; [|apply (chk_unc _ I)].
    rewrite Hn. intros E _; inversion E; subst. cbn. apply (chk_unc _ I _ _ Hn). now left.
  - intros f' fl. nu. destruct (Nat.eqb_spec f f') as [->|Hne]; [|apply (can_c _ I)].
    rewrite Hn. intros E [Hp|Hp]; inversion E; subst; discriminate.
  (* ---- FUnlock ---- *)
  - intros f' fl. nu. destruct (Nat.eqb_spec f f') as [->|Hne]; [|apply (chk_unc _ I)].
    rewrite Hn. intros E [Hp|Hp]; inversion E; subst; discriminate.
  - intros f' fl. nu. destruct (Nat.eqb_spec f f') as [->|Hne]; [|apply (can_c _ I)].
    rewrite Hn. intros E [Hp|Hp]; inversion E; subst; discriminate.
Qed.

(* ====================================================================== *)
(* Invariant, part 3: the counter is the sum of the increments issued       *)
(* ====================================================================== *)
(* the acquisitions whose body has been executed: all but the newest one while its
   owner has not yet run its body *)
Definition applied_log (s : state) : list call :=
  match mu s with
  | Some (OU g) =>
      match nth_error (users s) g with
      | Some u => match u_pc u with UCrit => tl (lock_log s) | _ => lock_log s end
      | None => lock_log s
      end
  | _ => lock_log s
  end.

Record InvSum (s : state) : Prop := {
  sum_ok : ops (rc s) = wrap64 (sumZ (cycle_incs (applied_log s)));
  stamp_ok : stamped (rc s) = cycle_stamped (applied_log s);
  can_stamp : forall i, canceler (rc s) = Some i -> cycle_stamped (applied_log s) = true;
  log_hd : forall g cl rest, nth_error (users s) g = Some (mkU UCrit (cl :: rest)) ->
           exists l, lock_log s = cl :: l
}.

Lemma InvSum_init : forall progs, InvSum (init progs).
Proof.
  intros progs. constructor.
  - reflexivity.
  - reflexivity.
  - discriminate.
  - intros g cl rest Hn. apply nth_error_In, in_map_iff in Hn. destruct Hn as [p [E _]]. discriminate.
Qed.

Lemma body_stamped : forall g cl r fls l,
  stamped r = cycle_stamped l -> (forall i, canceler r = Some i -> cycle_stamped l = true) ->
  stamped (fst (body c g cl r fls)) = cycle_stamped (cl :: l) /\
  (forall i, canceler (fst (body c g cl r fls)) = Some i -> cycle_stamped (cl :: l) = true).
Proof.
  intros g cl r fls l H1 H2. destruct cl; cbn [body fst cycle_stamped].
  - split; [exact H1|exact H2].
  - destruct (canceler r); [|destruct (with_flusher c)]; cbn [fst stamped]; auto.
  - destruct (with_flusher c); cbn [fst stamped persist]; auto.
  - split; [exact H1|exact H2].
  - unfold do_reset; cbn [fst stamped canceler]. split; [reflexivity|discriminate].
  - unfold do_reset; cbn [fst stamped canceler]. split; [reflexivity|discriminate].
Qed.

Lemma body_ops : forall g cl r fls l,
  ops r = wrap64 (sumZ (cycle_incs l)) ->
  ops (fst (body c g cl r fls)) = wrap64 (sumZ (cycle_incs (cl :: l))).
Proof.
  intros g cl r fls l H. destruct cl; cbn [body fst cycle_incs sumZ fold_right]; try exact H.
  - cbn [ops]. rewrite H, wrap64_add_l. f_equal. unfold sumZ. lia.
  - destruct (canceler r); [exact H|]. destruct (with_flusher c); exact H.
  - destruct (with_flusher c); exact H.
  - reflexivity.
  - reflexivity.
Qed.

Lemma InvSum_transfer : forall s s',
  applied_log s' = applied_log s -> ops (rc s') = ops (rc s) -> stamped (rc s') = stamped (rc s) ->
  canceler (rc s') = canceler (rc s) -> lock_log s' = lock_log s ->
  (forall g cl rest, nth_error (users s') g = Some (mkU UCrit (cl :: rest)) ->
                     nth_error (users s) g = Some (mkU UCrit (cl :: rest))) ->
  InvSum s -> InvSum s'.
Proof.
  intros s s' Ea Eo Es Ec El Hu I. constructor.
  - rewrite Eo, Ea. exact (sum_ok _ I).
  - rewrite Es, Ea. exact (stamp_ok _ I).
  - rewrite Ec, Ea. exact (can_stamp _ I).
  - intros g cl rest Hn. rewrite El. exact (log_hd _ I _ _ _ (Hu _ _ _ Hn)).
Qed.

Lemma InvSum_step : forall s t s', InvMu s -> InvFl s -> InvSum s -> Step c s t s' -> InvSum s'.
Proof.
  intros s t s' IM IF I HS.
  assert (Hfl : forall f fl, nth_error (flushers s) f = Some fl -> f_holds (f_pc fl) = true ->
                 applied_log s = lock_log s).
  { intros f fl Hn Hh. unfold applied_log. now rewrite (f_mu _ IM _ _ Hn Hh). }
  assert (Hfree : mu s = None -> applied_log s = lock_log s).
  { intros E. unfold applied_log. now rewrite E. }
  destruct HS as [g cl rest Hn Hm|g cl rest Hn|g cl rest Hn|f b Hn|f Hn|f b Hn Hm|f b Hn|f b Hn|f b Hn|f b Hn];
    try rewrite Hc;
    try (apply InvSum_transfer with s; auto; fail).
  (* ---- ULock ---- *)
  - assert (Ea : applied_log (mkSt (upd g (mkU UCrit (cl :: rest)) (users s)) (flushers s) (Some (OU g)) (rc s)
                                   (cl :: lock_log s)) = applied_log s).
    { unfold applied_log at 1; cbn [mu users lock_log]. nu. rewrite Nat.eqb_refl, Hn. cbn [u_pc tl].
      now rewrite Hfree. }
    constructor; cbn [rc]; try rewrite Ea.
    + exact (sum_ok _ I).
    + exact (stamp_ok _ I).
    + exact (can_stamp _ I).
    + cbn [users lock_log]. intros g' cl' rest'. nu. destruct (Nat.eqb_spec g g') as [->|Hne].
      * rewrite Hn. intros E; inversion E; subst. eauto.
      * intros Hn'. pose proof (u_mu _ IM _ _ Hn' eq_refl). congruence.
  (* ---- UBody ---- *)
  - pose proof (u_mu _ IM _ _ Hn eq_refl) as Hmu. destruct (log_hd _ I _ _ _ Hn) as [l Hl].
    assert (Ea : applied_log s = l).
    { unfold applied_log. rewrite Hmu, Hn. cbn [u_pc]. now rewrite Hl. }
    assert (Ea' : applied_log (mkSt (upd g (mkU UUnlock (cl :: rest)) (users s))
                    (snd (body c g cl (rc s) (flushers s))) (mu s)
                    (fst (body c g cl (rc s) (flushers s))) (lock_log s)) = cl :: l).
    { unfold applied_log; cbn [mu users lock_log]. rewrite Hmu. nu. rewrite Nat.eqb_refl, Hn. cbn [u_pc].
      exact Hl. }
    pose proof (sum_ok _ I) as Hs. pose proof (stamp_ok _ I) as Hst. pose proof (can_stamp _ I) as Hcs.
    rewrite Ea in Hs, Hst, Hcs.
    destruct (body_stamped g cl (rc s) (flushers s) l Hst Hcs) as [B1 B2].
    constructor; cbn [rc]; try rewrite Ea'.
    + now apply body_ops.
    + exact B1.
    + exact B2.
    + cbn [users lock_log]. intros g' cl' rest'. nu. destruct (Nat.eqb_spec g g') as [->|Hne].
      * rewrite Hn. intros E; inversion E.
      * intros Hn'. pose proof (u_mu _ IM _ _ Hn' eq_refl). congruence.
  (* ---- UUnlock ---- *)
  - pose proof (u_mu _ IM _ _ Hn eq_refl) as Hmu.
    apply InvSum_transfer with s; auto.
    + unfold applied_log; cbn [mu lock_log]. rewrite Hmu, Hn. reflexivity.
    + cbn [users]. intros g' cl' rest'. nu. destruct (Nat.eqb_spec g g') as [->|Hne]; [|auto].
      rewrite Hn. intros E; inversion E.
  (* ---- FLock ---- *)
  - apply InvSum_transfer with s; auto. unfold applied_log at 1; cbn [mu lock_log]. now rewrite Hfree.
  (* ---- FCancelRet ---- *)
  - apply InvSum_transfer with s; auto. unfold applied_log at 1; cbn [mu lock_log].
    now rewrite (Hfl _ _ Hn eq_refl).
  (* ---- FPersist ---- *)
  - pose proof (chk_unc _ IF _ _ Hn (or_introl eq_refl)) as Hb. cbn in Hb. subst b.
    destruct (can_ok _ IF) as [_ H2]. pose proof (H2 _ _ Hn eq_refl) as Hcan.
    pose proof (can_stamp _ I _ Hcan) as Hst.
    assert (Ea : applied_log (mkSt (users s) (upd f (mkF FPersisted false) (flushers s)) (mu s)
                   (persist (OF f) (stamp (rc s))) (lock_log s)) = applied_log s) by reflexivity.
    constructor; cbn [rc]; try rewrite Ea.
    + exact (sum_ok _ I).
    + cbn. now rewrite Hst.
    + exact (can_stamp _ I).
    + exact (log_hd _ I).
  (* ---- FUnlock ---- *)
  - apply InvSum_transfer with s; auto. unfold applied_log at 1; cbn [mu lock_log].
    now rewrite (Hfl _ _ Hn eq_refl).
Qed.

(* ====================================================================== *)
(* The invariant holds in every reachable state                             *)
(* ====================================================================== *)
Definition Inv (s : state) : Prop := InvMu s /\ InvFl s /\ InvSum s.

Lemma Inv_init : forall progs, Inv (init progs).
Proof. intros; split; [apply InvMu_init|split; [apply InvFl_init|apply InvSum_init]]. Qed.

Lemma Inv_step : forall s t s', Inv s -> step c s t = Some s' -> Inv s'.
Proof.
  intros s t s' [IM [IF IS]] H. apply step_Step in H. split; [|split].
  - eapply InvMu_step; eauto.
  - eapply InvFl_step; eauto.
  - eapply InvSum_step; eauto.
Qed.

Lemma Inv_run : forall sched s s', Inv s -> run c s sched = Some s' -> Inv s'.
Proof.
  induction sched as [|t r IH]; intros s s' I H; cbn [run] in H.
  - now inversion H; subst.
  - destruct (step c s t) as [s1|] eqn:E; [|discriminate]. eapply IH; [|exact H]. eapply Inv_step; eauto.
Qed.

Lemma Inv_reachable : forall s, reachable c s -> Inv s.
Proof. intros s [progs [sched H]]. eapply Inv_run; [apply Inv_init|exact H]. Qed.

Lemma run_app : forall c0 a b s, run c0 s (a ++ b) = match run c0 s a with Some s1 => run c0 s1 b | None => None end.
Proof.
  intros c0 a. induction a as [|t a IH]; intros b s; cbn [run app]; [reflexivity|].
  destruct (step c0 s t); [apply IH|reflexivity].
Qed.

Lemma reachable_run : forall s sched s', reachable c s -> run c s sched = Some s' -> reachable c s'.
Proof.
  intros s sched s' [progs [sc H]] H2. exists progs, (sc ++ sched). now rewrite run_app, H.
Qed.

(* ====================================================================== *)
(* C16_lock_invariant                                                       *)
(* ====================================================================== *)
Definition owner_in_cs (s : state) (o : owner) : Prop :=
  match o with
  | OU g => exists u, nth_error (users s) g = Some u /\ u_holds (u_pc u) = true /\ u_prog u <> []
  | OF f => exists fl, nth_error (flushers s) f = Some fl /\ f_holds (f_pc fl) = true
  end.

Lemma Step_step : forall c0 s t s', Step c0 s t s' -> step c0 s t = Some s'.
Proof.
  intros c0 s t s' H. destruct H; cbn [step];
    repeat match goal with H : nth_error _ _ = Some _ |- _ => rewrite H; clear H end;
    cbn [u_prog u_pc f_pc f_cancelled set_fl];
    repeat match goal with H : mu _ = None |- _ => rewrite H; clear H end; reflexivity.
Qed.

Lemma run_cons_Step : forall c0 s t s1 r s2,
  Step c0 s t s1 -> run c0 s1 r = Some s2 -> run c0 s (t :: r) = Some s2.
Proof. intros c0 s t s1 r s2 H1 H2. cbn [run]. now rewrite (Step_step _ _ _ _ H1). Qed.

Lemma upd_hit : forall {A} (l : list A) n x y, nth_error l n = Some y -> nth_error (upd n x l) n = Some x.
Proof. intros A l n x y H. now rewrite nth_error_upd, Nat.eqb_refl, H. Qed.

(* the owner alone, whatever the others do or do not do, reaches Unlock in at most three
   of its own steps; nothing but the flusher table / the owner's pc changes on the way *)
Lemma owner_releases : forall s o, Inv s -> mu s = Some o ->
  owner_in_cs s o /\
  exists n s', (1 <= n <= 3)%nat /\ run c s (repeat (tid_of o) n) = Some s' /\ mu s' = None /\
               (forall f, o = OF f -> users s' = users s).
Proof.
  intros s o [IM [IF IS]] Hm. destruct o as [g|f]; cbn [owner_in_cs tid_of].
  - destruct (mu_u _ IM _ Hm) as [[pc prog] [Hn [Hh Hp]]]. cbn [u_pc u_prog] in *.
    split; [eexists; repeat split; eauto|].
    destruct prog as [|cl rest]; [congruence|]. destruct pc; [discriminate| |].
    + exists 2%nat. eexists. split; [lia|]. split; [|split].
      * cbn [repeat]. eapply run_cons_Step; [apply SUBody; exact Hn|].
        eapply run_cons_Step; [|reflexivity]. eapply SUUnl. cbn [users]. eapply upd_hit; exact Hn.
      * reflexivity.
      * discriminate.
    + exists 1%nat. eexists. split; [lia|]. split; [|split].
      * cbn [repeat]. eapply run_cons_Step; [eapply SUUnl; exact Hn|reflexivity].
      * reflexivity.
      * discriminate.
  - destruct (mu_f _ IM _ Hm) as [[pc b] [Hn Hh]]. cbn [f_pc] in *.
    split; [eexists; split; eauto|].
    destruct pc; try discriminate.
    + (* FLocked *) destruct b.
      * exists 2%nat. eexists. split; [lia|]. split; [|split].
        -- cbn [repeat]. eapply run_cons_Step; [apply SFCheck; exact Hn|].
           eapply run_cons_Step; [|reflexivity]. eapply SFCancelRet. cbn [flushers]. eapply upd_hit; exact Hn.
        -- cbn [mu]. now rewrite Hc.
        -- reflexivity.
      * exists 3%nat. eexists. split; [lia|]. split; [|split].
        -- cbn [repeat]. eapply run_cons_Step; [apply SFCheck; exact Hn|].
           eapply run_cons_Step; [eapply SFPersist; cbn [flushers]; eapply upd_hit; exact Hn|].
           eapply run_cons_Step; [|reflexivity]. eapply SFUnl. cbn [flushers].
           eapply upd_hit. eapply upd_hit. exact Hn.
        -- reflexivity.
        -- reflexivity.
    + (* FCancelled *) exists 1%nat. eexists. split; [lia|]. split; [|split].
      * cbn [repeat]. eapply run_cons_Step; [eapply SFCancelRet; exact Hn|reflexivity].
      * cbn [mu]. now rewrite Hc.
      * reflexivity.
    + (* FChecked *) exists 2%nat. eexists. split; [lia|]. split; [|split].
      * cbn [repeat]. eapply run_cons_Step; [eapply SFPersist; exact Hn|].
        eapply run_cons_Step; [|reflexivity]. eapply SFUnl. cbn [flushers]. eapply upd_hit; exact Hn.
      * reflexivity.
      * reflexivity.
    + (* FPersisted *) exists 1%nat. eexists. split; [lia|]. split; [|split].
      * cbn [repeat]. eapply run_cons_Step; [eapply SFUnl; exact Hn|reflexivity].
      * reflexivity.
      * reflexivity.
Qed.

(* ====================================================================== *)
(* C16_no_deadlock                                                          *)
(* ====================================================================== *)
Lemma not_all_returned : forall s, ~ all_user_calls_returned s ->
  exists g pc cl rest, nth_error (users s) g = Some (mkU pc (cl :: rest)).
Proof.
  intros s. unfold all_user_calls_returned. induction (users s) as [|[pc prog] l IH]; intros H.
  - exfalso. apply H. constructor.
  - destruct prog as [|cl rest].
    + destruct IH as [g [pc' [cl [rest Hn]]]].
      * intros HF. apply H. constructor; [reflexivity|exact HF].
      * exists (S g), pc', cl, rest. exact Hn.
    + exists O, pc, cl, rest. reflexivity.
Qed.

Lemma idle_user_enabled : forall s g cl rest, InvMu s -> mu s = None ->
  forall pc, nth_error (users s) g = Some (mkU pc (cl :: rest)) -> step c s (U g) <> None.
Proof.
  intros s g cl rest IM Hm pc Hn. destruct pc.
  - cbn [step]. rewrite Hn. cbn [u_prog u_pc]. rewrite Hm. discriminate.
  - pose proof (u_mu _ IM _ _ Hn eq_refl). congruence.
  - pose proof (u_mu _ IM _ _ Hn eq_refl). congruence.
Qed.

Lemma progress : forall s, Inv s -> ~ all_user_calls_returned s ->
  (exists g, step c s (U g) <> None) \/
  (exists f n s', mu s = Some (OF f) /\ (1 <= n <= 3)%nat /\ run c s (repeat (F f) n) = Some s' /\
                  mu s' = None /\ exists g, step c s' (U g) <> None).
Proof.
  intros s I Hnr. destruct (not_all_returned _ Hnr) as [g [pc [cl [rest Hn]]]].
  destruct (mu s) as [[g'|f]|] eqn:Hm.
  - left. destruct (owner_releases _ _ I Hm) as [_ [n [s' [Hn' [Hr _]]]]]. exists g'.
    destruct n as [|n]; [lia|]. cbn [repeat run tid_of] in Hr. intros E. now rewrite E in Hr.
  - right. destruct (owner_releases _ _ I Hm) as [_ [n [s' [Hn' [Hr [Hm' Hu]]]]]].
    exists f, n, s'. repeat split; try lia; try assumption.
    exists g. pose proof (Inv_run _ _ _ I Hr) as [IM' _].
    apply idle_user_enabled with cl rest pc; auto. rewrite (Hu f eq_refl). exact Hn.
  - left. exists g. destruct I as [IM _]. eapply idle_user_enabled; eauto.
Qed.

(* ====================================================================== *)
(* C16_one_flusher                                                          *)
(* ====================================================================== *)
Lemma filter_le1 : forall {A} (p : A -> bool) (l : list A),
  (forall i j x y, nth_error l i = Some x -> nth_error l j = Some y -> p x = true -> p y = true -> i = j) ->
  (length (filter p l) <= 1)%nat.
Proof.
  intros A p l. induction l as [|a l IH]; intros H; cbn [filter length]; [lia|].
  destruct (p a) eqn:Ea.
  - assert (Hnil : filter p l = []).
    { clear IH. assert (Hall : forall y, In y l -> p y = false).
      { intros y Hy. destruct (In_nth_error _ _ Hy) as [j Hj]. destruct (p y) eqn:Ey; [|reflexivity].
        exfalso. specialize (H O (S j) a y eq_refl Hj Ea Ey). discriminate. }
      induction l as [|b l IHl]; [reflexivity|]. cbn [filter]. rewrite (Hall b (or_introl eq_refl)).
      apply IHl.
      - intros i j x y Hi Hj. destruct i, j; cbn in *; try (apply H with (i := O) (j := O)); auto.
        + intros Hx Hy. inversion Hi; subst. specialize (H O (S (S j)) x y eq_refl Hj Hx Hy). discriminate.
        + intros Hx Hy. inversion Hj; subst. specialize (H (S (S i)) O x y Hi eq_refl Hx Hy). discriminate.
        + intros Hx Hy. specialize (H (S (S i)) (S (S j)) x y Hi Hj Hx Hy). lia.
      - intros y Hy. apply Hall. now right. }
    rewrite Hnil. cbn. lia.
  - apply IH. intros i j x y Hi Hj Hx Hy. specialize (H (S i) (S j) x y Hi Hj Hx Hy). lia.
Qed.

Lemma filter_none : forall {A} (p : A -> bool) (l : list A),
  (forall x, In x l -> p x = false) -> filter p l = [].
Proof.
  intros A p l. induction l as [|a l IH]; intros H; [reflexivity|]. cbn [filter].
  rewrite (H a (or_introl eq_refl)). apply IH. intros x Hx. apply H. now right.
Qed.

Lemma at_most_one_uncancelled : forall s, Inv s -> (uncancelled s <= 1)%nat.
Proof.
  intros s [_ [IF _]]. unfold uncancelled. apply filter_le1.
  intros i j x y Hi Hj Hx Hy. destruct (can_ok _ IF) as [_ H2].
  apply negb_true_iff in Hx, Hy. pose proof (H2 _ _ Hi Hx). pose proof (H2 _ _ Hj Hy). congruence.
Qed.

Lemma uncancelled_is_canceler : forall s f fl, Inv s ->
  nth_error (flushers s) f = Some fl -> f_cancelled fl = false -> canceler (rc s) = Some f.
Proof. intros s f fl [_ [IF _]] Hn Hu. destruct (can_ok _ IF) as [_ H2]. eauto. Qed.

Lemma no_canceler_all_cancelled : forall s, Inv s -> canceler (rc s) = None ->
  uncancelled s = O /\ forall f fl, nth_error (flushers s) f = Some fl -> f_cancelled fl = true.
Proof.
  intros s [_ [IF _]] Hcn. destruct (can_ok _ IF) as [_ H2].
  assert (Hall : forall f fl, nth_error (flushers s) f = Some fl -> f_cancelled fl = true).
  { intros f fl Hn. destruct (f_cancelled fl) eqn:E; [reflexivity|]. pose proof (H2 _ _ Hn E). congruence. }
  split; [|exact Hall]. unfold uncancelled. rewrite filter_none; [reflexivity|].
  intros x Hx. destruct (In_nth_error _ _ Hx) as [f Hf]. now rewrite (Hall _ _ Hf).
Qed.

(* the body of EndTest / Reset clears the canceler *)
Lemma reset_body_clears : forall g cl r fls, cl = EndTest \/ cl = Reset ->
  canceler (fst (body c g cl r fls)) = None.
Proof. intros g cl r fls [-> | ->]; reflexivity. Qed.

Definition samples_of (f : nat) (r : recst) : list sample :=
  filter (fun x => match s_by x with OF f' => Nat.eqb f f' | OU _ => false end) (persisted r).

Lemma body_persisted : forall g cl r fls,
  persisted (fst (body c g cl r fls)) = persisted r \/
  exists x, s_by x = OU g /\ persisted (fst (body c g cl r fls)) = x :: persisted r.
Proof.
  intros g cl r fls. destruct cl; cbn [body fst]; auto.
  - destruct (canceler r); [|destruct (with_flusher c)]; auto.
  - destruct (with_flusher c); cbn [fst persist persisted]; [auto|]. right. eexists; split; [|reflexivity]. reflexivity.
  - unfold do_reset; cbn [fst persisted]. destruct (stamped r); cbn [persist persisted]; [|auto].
    right. eexists; split; [|reflexivity]. reflexivity.
Qed.

(* one step: a flusher whose context is cancelled adds no sample, and stays cancelled *)
Lemma cancelled_step : forall s t s' f fl, Inv s -> step c s t = Some s' ->
  nth_error (flushers s) f = Some fl -> f_cancelled fl = true ->
  samples_of f (rc s') = samples_of f (rc s) /\
  (t = F f \/ t = Tick f -> persisted (rc s') = persisted (rc s)) /\
  exists fl', nth_error (flushers s') f = Some fl' /\ f_cancelled fl' = true /\
    (t = F f \/ t = Tick f -> (f_rank (f_pc fl') < f_rank (f_pc fl))%nat).
Proof.
  intros s t s' f fl [IM [IF IS]] H Hn Hcf. apply step_Step in H.
  assert (Hchk : forall b, nth_error (flushers s) f = Some (mkF FChecked b) -> False).
  { intros b E. pose proof (chk_unc _ IF _ _ E (or_introl eq_refl)) as Hb. cbn in Hb. subst b.
    rewrite E in Hn; inversion Hn; subst. discriminate. }
  assert (Hper : forall b, nth_error (flushers s) f = Some (mkF FPersisted b) -> False).
  { intros b E. pose proof (chk_unc _ IF _ _ E (or_intror eq_refl)) as Hb. cbn in Hb. subst b.
    rewrite E in Hn; inversion Hn; subst. discriminate. }
  destruct H as [g cl rest Hn' Hm|g cl rest Hn'|g cl rest Hn'|f' b Hn'|f' Hn'|f' b Hn' Hm|f' b Hn'|f' b Hn'|f' b Hn'|f' b Hn'];
    cbn [rc flushers]; try rewrite Hc.
  - repeat split; try reflexivity. exists fl. repeat split; auto. intros [E|E]; discriminate.
  - split; [|split].
    + unfold samples_of. destruct (body_persisted g cl (rc s) (flushers s)) as [->|[x [Hx ->]]]; [reflexivity|].
      cbn [filter]. now rewrite Hx.
    + intros [E|E]; discriminate.
    + destruct (body_fls_fwd c g cl (rc s) _ _ _ Hn) as [fl' [Hfl' [_ Hcc]]].
      exists fl'. repeat split; auto. intros [E|E]; discriminate.
  - repeat split; try reflexivity. exists fl. repeat split; auto. intros [E|E]; discriminate.
  - repeat split; try reflexivity. nu. destruct (Nat.eqb_spec f' f) as [->|Hne].
    + rewrite Hn' in *. inversion Hn; subst. cbn in Hcf; subst b. eexists; repeat split. intros _; cbn; lia.
    + exists fl. repeat split; auto. intros [E|E]; inversion E; congruence.
  - repeat split; try reflexivity. nu. destruct (Nat.eqb_spec f' f) as [->|Hne].
    + rewrite Hn' in *. inversion Hn; subst. eexists; repeat split. intros _; cbn; lia.
    + exists fl. repeat split; auto. intros [E|E]; inversion E; congruence.
  - repeat split; try reflexivity. nu. destruct (Nat.eqb_spec f' f) as [->|Hne].
    + rewrite Hn' in *. inversion Hn; subst. cbn in Hcf; subst b. eexists; repeat split. intros _; cbn; lia.
    + exists fl. repeat split; auto. intros [E|E]; inversion E; congruence.
  - repeat split; try reflexivity. nu. destruct (Nat.eqb_spec f' f) as [->|Hne].
    + rewrite Hn' in *. inversion Hn; subst. cbn in Hcf; subst b. eexists; repeat split. intros _; cbn; lia.
    + exists fl. repeat split; auto. intros [E|E]; inversion E; congruence.
  - repeat split; try reflexivity. nu. destruct (Nat.eqb_spec f' f) as [->|Hne].
    + rewrite Hn' in *. inversion Hn; subst. cbn in Hcf; subst b. eexists; repeat split. intros _; cbn; lia.
    + exists fl. repeat split; auto. intros [E|E]; inversion E; congruence.
  - destruct (Nat.eqb_spec f' f) as [->|Hne]; [exfalso; eauto|].
    split; [|split].
    + unfold samples_of. cbn [persist stamp persisted]. cbn [filter s_by].
      apply Nat.eqb_neq in Hne. rewrite Nat.eqb_sym in Hne. now rewrite Hne.
    + intros [E|E]; inversion E; congruence.
    + nu. apply Nat.eqb_neq in Hne. rewrite Hne. exists fl. repeat split; auto.
      apply Nat.eqb_neq in Hne. intros [E|E]; inversion E; congruence.
  - destruct (Nat.eqb_spec f' f) as [->|Hne]; [exfalso; eauto|].
    repeat split; try reflexivity. nu. apply Nat.eqb_neq in Hne. rewrite Hne. exists fl. repeat split; auto.
    apply Nat.eqb_neq in Hne. intros [E|E]; inversion E; congruence.
Qed.

(* ... hence along every schedule from that moment on *)
Lemma cancelled_never_persists : forall sched s s' f fl, Inv s -> run c s sched = Some s' ->
  nth_error (flushers s) f = Some fl -> f_cancelled fl = true ->
  samples_of f (rc s') = samples_of f (rc s) /\
  exists fl', nth_error (flushers s') f = Some fl' /\ f_cancelled fl' = true.
Proof.
  induction sched as [|t r IH]; intros s s' f fl I H Hn Hcf; cbn [run] in H.
  - inversion H; subst. eauto.
  - destruct (step c s t) as [s1|] eqn:E; [|discriminate].
    destruct (cancelled_step _ _ _ _ _ I E Hn Hcf) as [Hs [_ [fl1 [Hn1 [Hc1 _]]]]].
    destruct (IH _ _ _ _ (Inv_step _ _ _ I E) H Hn1 Hc1) as [Hs' Hfl']. split; [congruence|exact Hfl'].
Qed.

(* ====================================================================== *)
(* C16_sum                                                                  *)
(* ====================================================================== *)
Lemma endtest_persists_sum : forall s g rest s', Inv s ->
  nth_error (users s) g = Some (mkU UCrit (EndTest :: rest)) ->
  step c s (U g) = Some s' ->
  exists l, lock_log s = EndTest :: l /\
    ops (rc s) = wrap64 (sumZ (cycle_incs l)) /\
    stamped (rc s) = cycle_stamped l /\
    (cycle_stamped l = true ->
       persisted (rc s') = mkS (wrap64 (sumZ (cycle_incs l))) (gauge (rc s)) (OU g) :: persisted (rc s)) /\
    (cycle_stamped l = false -> persisted (rc s') = persisted (rc s)) /\
    ops (rc s') = 0 /\ canceler (rc s') = None /\ uncancelled s' = O.
Proof.
  intros s g rest s' I Hn H. pose proof (Inv_step _ _ _ I H) as I'.
  destruct I as [IM [IF IS]]. pose proof (u_mu _ IM _ _ Hn eq_refl) as Hmu.
  destruct (log_hd _ IS _ _ _ Hn) as [l Hl]. exists l. split; [exact Hl|].
  assert (Ea : applied_log s = l).
  { unfold applied_log. rewrite Hmu, Hn. cbn [u_pc]. now rewrite Hl. }
  pose proof (sum_ok _ IS) as Hs. pose proof (stamp_ok _ IS) as Hst. rewrite Ea in Hs, Hst.
  split; [exact Hs|]. split; [exact Hst|].
  cbn [step] in H. rewrite Hn in H. cbn [u_prog u_pc] in H. inversion H; subst s'. cbn [rc].
  assert (Hcn : canceler (fst (body c g EndTest (rc s) (flushers s))) = None) by reflexivity.
  split; [|split; [|split; [|split]]].
  - intros E. cbn [body]. rewrite Hst, E. unfold do_reset; cbn [fst persisted persist]. now rewrite Hs.
  - intros E. cbn [body]. rewrite Hst, E. reflexivity.
  - reflexivity.
  - exact Hcn.
  - apply no_canceler_all_cancelled; [exact I'|exact Hcn].
Qed.

End Repaired.

(* ====================================================================== *)
(* Bounded work: every user step consumes one unit of a finite budget       *)
(* (for either value of the parameter)                                      *)
(* ====================================================================== *)
Lemma sum_upd : forall (f : ustate -> nat) l g u x, nth_error l g = Some u ->
  (fold_right Nat.add O (map f (upd g x l)) + f u = fold_right Nat.add O (map f l) + f x)%nat.
Proof.
  intros f l. induction l as [|a l IH]; intros g u x H.
  - destruct g; discriminate.
  - destruct g as [|g]; cbn [nth_error] in H.
    + inversion H; subst. cbn [upd map fold_right]. lia.
    + cbn [upd map fold_right]. specialize (IH _ _ x H). lia.
Qed.

Lemma work_step : forall c s t s', Step c s t s' ->
  (user_work s' + (match t with U _ => 1 | _ => 0 end) = user_work s)%nat.
Proof.
  intros c s t s' H. unfold user_work.
  destruct H as [g cl rest Hn Hm|g cl rest Hn|g cl rest Hn|f b Hn|f Hn|f b Hn Hm|f b Hn|f b Hn|f b Hn|f b Hn];
    cbn [users]; try lia.
  - pose proof (sum_upd u_work _ _ _ (mkU UCrit (cl :: rest)) Hn) as E. unfold u_work in E at 2 4.
    cbn [u_pc u_prog length] in E. lia.
  - pose proof (sum_upd u_work _ _ _ (mkU UUnlock (cl :: rest)) Hn) as E. unfold u_work in E at 2 4.
    cbn [u_pc u_prog length] in E. lia.
  - pose proof (sum_upd u_work _ _ _ (mkU UIdle rest) Hn) as E. unfold u_work in E at 2 4.
    cbn [u_pc u_prog length] in E. lia.
Qed.

Lemma bounded_work : forall c sched s s', run c s sched = Some s' ->
  (user_steps sched + user_work s' = user_work s)%nat.
Proof.
  intros c sched. induction sched as [|t r IH]; intros s s' H; cbn [run] in H.
  - inversion H; subst. reflexivity.
  - destruct (step c s t) as [s1|] eqn:E; [|discriminate]. specialize (IH _ _ H).
    pose proof (work_step _ _ _ _ (step_Step _ _ _ _ E)) as W.
    unfold user_steps in *. cbn [filter]. destruct t; cbn [length]; lia.
Qed.

Lemma user_work_init : forall progs, user_work (init progs) = (3 * length (concat progs))%nat.
Proof.
  intros progs. unfold user_work, init. cbn [users]. induction progs as [|p l IH]; [reflexivity|].
  cbn [map fold_right concat]. rewrite app_length, IH. unfold u_work. cbn [u_pc u_prog]. lia.
Qed.

(* ====================================================================== *)
(* The code before the repair: a reachable state in which nothing can move  *)
(* ====================================================================== *)
Definition old_cfg : cfg := mkCfg false true.
Definition old_progs : list (list call) := [[Begin; EndTest; Inc 1]].
(* Begin (starts flusher 0); tick; EndTest locks, cancels, unlocks; flusher locks, sees the
   cancellation, returns with the mutex held *)
Definition old_sched : list tid := call_steps 0 ++ [Tick 0] ++ call_steps 0 ++ rep 3 (F 0).
Definition old_stuck : state :=
  mkSt [mkU UIdle [Inc 1]] [mkF FDone true] (Some (OF 0))
       (mkR None false false 0 0 [mkS 0 0 (OU 0)]) [EndTest; Begin].

Lemma old_reaches_stuck : run old_cfg (init old_progs) old_sched = Some old_stuck.
Proof. vm_compute. reflexivity. Qed.

Lemma old_stuck_dead : forall t, step old_cfg old_stuck t = None.
Proof.
  intros [g|f|f].
  - destruct g as [|[|g]]; reflexivity.
  - destruct f as [|[|f]]; reflexivity.
  - destruct f as [|[|f]]; reflexivity.
Qed.

(* ====================================================================== *)
(* Lock paths                                                               *)
(* ====================================================================== *)
Lemma held_eqb_eq : forall a b, held_eqb a b = true <-> a = b.
Proof. intros [] []; cbn; split; intros H; try reflexivity; try discriminate. Qed.

(* a goroutine executing a balanced path from a state in which it does not hold the mutex
   gets through every event (never blocks on itself, never unlocks an unlocked mutex) and
   ends without holding it, its deferred calls included *)
Lemma balanced_exec : forall p, balanced p = true <-> exec_path Free p = Some Free.
Proof.
  intros p. unfold balanced. destruct (exec_path Free p) as [h|].
  - rewrite held_eqb_eq. split; congruence.
  - split; discriminate.
Qed.

(* sequences of balanced paths keep the goroutine at "not held" *)
Lemma balanced_seq : forall ps, forallb balanced ps = true ->
  fold_left (fun h p => match h with Some h0 => exec_path h0 p | None => None end) ps (Some Free) = Some Free.
Proof.
  induction ps as [|p ps IH]; intros H; [reflexivity|]. cbn [forallb] in H. apply andb_true_iff in H.
  destruct H as [Hp Hps]. cbn [fold_left]. apply balanced_exec in Hp. rewrite Hp. now apply IH.
Qed.

(* the lock paths that the goroutines of the transition system follow *)
Definition user_call_path : list lock_event := [Lock; Unlock].
Definition flusher_paths (c : cfg) : list (list lock_event) :=
  [ [];                                                        (* select: Done arm *)
    [Lock; Unlock];                                            (* tick, lock, persist, unlock *)
    if flusher_unlocks_on_cancel c then [Lock; Unlock] else [Lock] ].  (* tick, lock, cancelled *)

Lemma model_paths_balanced : forall c,
  (balanced user_call_path && forallb balanced (flusher_paths c)) = flusher_unlocks_on_cancel c.
Proof. intros [[] w]; reflexivity. Qed.

(* ====================================================================== *)
(* Statements over reachable states (used by Props/C16.v)                   *)
(* ====================================================================== *)
Section Top.
Variable c : cfg.
Hypothesis Hc : flusher_unlocks_on_cancel c = true.

Lemma top_lock_invariant : forall s o, reachable c s -> mu s = Some o ->
  match o with
  | OU g => exists u, nth_error (users s) g = Some u /\ u_holds (u_pc u) = true /\ u_prog u <> []
  | OF f => exists fl, nth_error (flushers s) f = Some fl /\ f_holds (f_pc fl) = true
  end /\
  exists n s', (1 <= n <= 3)%nat /\ run c s (repeat (tid_of o) n) = Some s' /\ mu s' = None.
Proof.
  intros s o Hr Hm. destruct (owner_releases c Hc s o (Inv_reachable c Hc s Hr) Hm) as [H1 [n [s' [Hn [Hrun [Hm' _]]]]]].
  split; [destruct o; exact H1|]. eauto.
Qed.

(* exclusion: every goroutine whose pc is inside a critical section is THE owner *)
Lemma top_mutual_exclusion : forall s, reachable c s ->
  (forall g u, nth_error (users s) g = Some u -> u_holds (u_pc u) = true -> mu s = Some (OU g)) /\
  (forall f fl, nth_error (flushers s) f = Some fl -> f_holds (f_pc fl) = true -> mu s = Some (OF f)).
Proof.
  intros s Hr. destruct (Inv_reachable c Hc s Hr) as [IM _]. split; [apply (u_mu _ IM)|apply (f_mu _ IM)].
Qed.

Lemma top_progress : forall s, reachable c s -> ~ all_user_calls_returned s ->
  (exists g, step c s (U g) <> None) \/
  (exists f n s', mu s = Some (OF f) /\ (1 <= n <= 3)%nat /\ run c s (repeat (F f) n) = Some s' /\
                  mu s' = None /\ exists g, step c s' (U g) <> None).
Proof. intros s Hr. apply progress; [exact Hc|apply (Inv_reachable c Hc); assumption]. Qed.

Lemma top_no_deadlock : forall s, reachable c s -> ~ all_user_calls_returned s ->
  exists t, is_goroutine t = true /\ step c s t <> None.
Proof.
  intros s Hr Hn. destruct (top_progress s Hr Hn) as [[g H]|[f [n [s' [Hm [Hn' [Hrun _]]]]]]].
  - exists (U g). split; [reflexivity|exact H].
  - exists (F f). split; [reflexivity|]. destruct n as [|n]; [lia|]. cbn [repeat run] in Hrun.
    intros E. now rewrite E in Hrun.
Qed.

Lemma top_one_flusher : forall s, reachable c s ->
  (uncancelled s <= 1)%nat /\
  (forall f fl, nth_error (flushers s) f = Some fl -> f_cancelled fl = false -> canceler (rc s) = Some f) /\
  (canceler (rc s) = None -> uncancelled s = O) /\
  (forall f fl, nth_error (flushers s) f = Some fl -> f_pc fl = FDone -> f_cancelled fl = true).
Proof.
  intros s Hr. pose proof (Inv_reachable c Hc s Hr) as I. repeat split.
  - now apply at_most_one_uncancelled.
  - intros f fl. now apply uncancelled_is_canceler.
  - intros E. now apply no_canceler_all_cancelled.
  - intros f fl Hn Hp. destruct I as [_ [IF _]]. apply (can_c _ IF _ _ Hn). now right.
Qed.

Lemma top_cancelled_flusher : forall s f fl, reachable c s ->
  nth_error (flushers s) f = Some fl -> f_cancelled fl = true ->
  (* no own step persists, and each own step (incl. a pending tick) brings it closer to return *)
  (forall t s', (t = F f \/ t = Tick f) -> step c s t = Some s' ->
       persisted (rc s') = persisted (rc s) /\
       exists fl', nth_error (flushers s') f = Some fl' /\ (f_rank (f_pc fl') < f_rank (f_pc fl))%nat) /\
  (* and along every continuation of the run it never adds a sample and stays cancelled *)
  (forall sched s', run c s sched = Some s' ->
       samples_of f (rc s') = samples_of f (rc s) /\
       exists fl', nth_error (flushers s') f = Some fl' /\ f_cancelled fl' = true).
Proof.
  intros s f fl Hr Hn Hcf. pose proof (Inv_reachable c Hc s Hr) as I. split.
  - intros t s' Ht Hs. destruct (cancelled_step c _ _ _ _ _ I Hs Hn Hcf) as [_ [Hp [fl' [Hn' [_ Hrk]]]]].
    split; [now apply Hp|]. exists fl'. split; [exact Hn'|now apply Hrk].
  - intros sched s' Hrun. eapply cancelled_never_persists; eauto.
Qed.

Lemma top_reset_cancels : forall s g cl rest s', reachable c s ->
  nth_error (users s) g = Some (mkU UCrit (cl :: rest)) -> cl = EndTest \/ cl = Reset ->
  step c s (U g) = Some s' ->
  canceler (rc s') = None /\ uncancelled s' = O /\
  forall f fl, nth_error (flushers s') f = Some fl -> f_cancelled fl = true.
Proof.
  intros s g cl rest s' Hr Hn Hcl Hs. pose proof (Inv_reachable c Hc s Hr) as I.
  pose proof (Inv_step c Hc _ _ _ I Hs) as I'.
  assert (Hcn : canceler (rc s') = None).
  { cbn [step] in Hs. rewrite Hn in Hs. cbn [u_prog u_pc] in Hs. inversion Hs; subst s'. cbn [rc].
    destruct Hcl as [-> | ->]; reflexivity. }
  split; [exact Hcn|]. now apply no_canceler_all_cancelled.
Qed.

Lemma top_sum : forall s g rest s', reachable c s ->
  nth_error (users s) g = Some (mkU UCrit (EndTest :: rest)) ->
  step c s (U g) = Some s' ->
  exists l, lock_log s = EndTest :: l /\
    (cycle_stamped l = true ->
       persisted (rc s') = mkS (wrap64 (sumZ (cycle_incs l))) (gauge (rc s)) (OU g) :: persisted (rc s)) /\
    (cycle_stamped l = false -> persisted (rc s') = persisted (rc s)) /\
    ops (rc s') = 0.
Proof.
  intros s g rest s' Hr Hn Hs.
  destruct (endtest_persists_sum c Hc _ _ _ _ (Inv_reachable c Hc s Hr) Hn Hs) as [l [Hl [_ [_ [H1 [H2 [H3 _]]]]]]].
  exists l. auto.
Qed.

(* the running counter is, at every moment, the sum of the increments whose critical
   section has been executed in the current cycle *)
Lemma top_counter : forall s, reachable c s ->
  ops (rc s) = wrap64 (sumZ (cycle_incs (applied_log s))) /\
  stamped (rc s) = cycle_stamped (applied_log s).
Proof.
  intros s Hr. destruct (Inv_reachable c Hc s Hr) as [_ [_ IS]]. split; [apply (sum_ok _ IS)|apply (stamp_ok _ IS)].
Qed.

End Top.

Lemma top_bounded_work : forall c progs sched s, run c (init progs) sched = Some s ->
  (user_steps sched + user_work s = 3 * length (concat progs))%nat.
Proof. intros c progs sched s H. rewrite <- user_work_init. now apply (bounded_work c). Qed.

Lemma work_zero_returned : forall s, InvMu s -> user_work s = O -> all_user_calls_returned s.
Proof.
  intros s IM H. unfold all_user_calls_returned, user_work in *.
  assert (Hall : forall g u, nth_error (users s) g = Some u -> u_holds (u_pc u) = true -> u_prog u <> []).
  { intros g u Hn Hh. pose proof (u_mu _ IM _ _ Hn Hh) as Hm. destruct (mu_u _ IM _ Hm) as [u' [Hn' [_ Hp]]].
    congruence. }
  revert H Hall. induction (users s) as [|u l IH]; intros H Hall; constructor.
  - cbn [map fold_right] in H. assert (Hu : u_work u = O) by lia.
    destruct u as [pc prog]. unfold u_work in Hu. cbn [u_pc u_prog] in *.
    destruct prog as [|cl rest]; [reflexivity|]. exfalso. cbn [length] in Hu. destruct pc; lia.
  - apply IH.
    + cbn [map fold_right] in H. lia.
    + intros g u' Hn. apply (Hall (S g) u' Hn).
Qed.

Lemma top_old_deadlock :
  exists sched s, run old_cfg (init old_progs) sched = Some s /\
    ~ all_user_calls_returned s /\
    (exists g cl rest, nth_error (users s) g = Some (mkU UIdle (cl :: rest))) /\
    (exists f, mu s = Some (OF f) /\ nth_error (flushers s) f = Some (mkF FDone true)) /\
    (forall t, step old_cfg s t = None) /\
    (forall sched', sched' <> [] -> run old_cfg s sched' = None).
Proof.
  exists old_sched, old_stuck. split; [exact old_reaches_stuck|]. split; [|split; [|split; [|split]]].
  - intros H. inversion H as [|u l Hu Hl]; subst. discriminate.
  - exists O, (Inc 1), []. reflexivity.
  - exists O. split; reflexivity.
  - exact old_stuck_dead.
  - intros [|t r] Hne; [congruence|]. cbn [run]. now rewrite old_stuck_dead.
Qed.

(* ====================================================================== *)
(* Termination: from every reachable state the pending calls can be brought *)
(* to completion, each unit of work within four steps                       *)
(* ====================================================================== *)
Lemma user_steps_repeat_F : forall f n, user_steps (repeat (F f) n) = O.
Proof. intros f n. induction n; [reflexivity|exact IHn]. Qed.

Lemma returned_work_zero : forall s, all_user_calls_returned s -> user_work s = O.
Proof.
  intros s H. unfold all_user_calls_returned, user_work in *. induction H as [|u l Hu Hl IH]; [reflexivity|].
  cbn [map fold_right]. rewrite IH. unfold u_work. rewrite Hu. cbn [length]. now destruct (u_pc u).
Qed.

Lemma one_more_unit : forall c, flusher_unlocks_on_cancel c = true ->
  forall s, reachable c s -> ~ all_user_calls_returned s ->
  exists sched s', (1 <= length sched <= 4)%nat /\ run c s sched = Some s' /\
                   (user_work s' + 1 = user_work s)%nat.
Proof.
  intros c Hc s Hr Hn. destruct (top_progress c Hc s Hr Hn) as [[g H]|[f [n [s1 [Hm [Hn' [Hrun [_ [g H]]]]]]]]].
  - destruct (step c s (U g)) as [s'|] eqn:E; [|congruence]. exists [U g], s'. split; [cbn; lia|].
    split; [cbn [run]; now rewrite E|]. exact (work_step _ _ _ _ (step_Step _ _ _ _ E)).
  - destruct (step c s1 (U g)) as [s'|] eqn:E; [|congruence]. exists (repeat (F f) n ++ [U g]), s'.
    split; [rewrite app_length, repeat_length; cbn; lia|]. split.
    + rewrite run_app, Hrun. cbn [run]. now rewrite E.
    + pose proof (bounded_work _ _ _ _ Hrun) as B. rewrite user_steps_repeat_F in B.
      pose proof (work_step _ _ _ _ (step_Step _ _ _ _ E)) as W. cbv iota beta in W. lia.
Qed.

Lemma top_can_finish : forall c, flusher_unlocks_on_cancel c = true ->
  forall s, reachable c s ->
  exists sched s', run c s sched = Some s' /\ all_user_calls_returned s' /\
                   (length sched <= 4 * user_work s)%nat.
Proof.
  intros c Hc s Hr. remember (user_work s) as k eqn:Ek. revert s Hr Ek.
  induction k as [|k IH]; intros s Hr Ek.
  - exists [], s. split; [reflexivity|]. split; [|cbn; lia].
    apply work_zero_returned; [|now symmetry]. now destruct (Inv_reachable c Hc s Hr).
  - assert (Hn : ~ all_user_calls_returned s).
    { intros H. apply returned_work_zero in H. lia. }
    destruct (one_more_unit c Hc s Hr Hn) as [sc [s1 [Hl [Hrun Hw]]]].
    assert (Ek1 : k = user_work s1) by lia.
    destruct (IH s1 (reachable_run c _ _ _ Hr Hrun) Ek1) as [sc2 [s2 [Hrun2 [Hret Hl2]]]].
    exists (sc ++ sc2), s2. split; [now rewrite run_app, Hrun|]. split; [exact Hret|].
    rewrite app_length. lia.
Qed.

(* ====================================================================== *)
(* Goroutines executing balanced lock paths over one RWMutex                *)
(* (the synchronized wrappers, the catcher): exclusion state stays          *)
(* consistent and some goroutine can always move                            *)
(* ====================================================================== *)
Definition mem (g : nat) (l : list nat) : bool := existsb (Nat.eqb g) l.

(* what goroutine g holds according to the mutex *)
Definition held_of (g : nat) (m : rw) : held :=
  match rw_writer m with
  | Some w => if Nat.eqb w g then HeldW else if mem g (rw_readers m) then HeldR else Free
  | None => if mem g (rw_readers m) then HeldR else Free
  end.

Definition rw_wf (m : rw) : Prop :=
  (forall w, rw_writer m = Some w -> rw_readers m = []) /\ NoDup (rw_readers m).

Definition rest_ok (h : held) (p : pgor) : Prop :=
  match ev_run h (pg_defers p) (pg_cur p) with
  | Some (h', ds) => run_defers h' ds = Some Free
  | None => False
  end.

Record PInv (s : psys) : Prop := {
  pi_wf : rw_wf (ps_rw s);
  pi_rest : forall g p, nth_error (ps_g s) g = Some p ->
            rest_ok (held_of g (ps_rw s)) p /\ forallb balanced (pg_todo p) = true;
  pi_writer : forall w, rw_writer (ps_rw s) = Some w -> (w < length (ps_g s))%nat;
  pi_readers : forall r, In r (rw_readers (ps_rw s)) -> (r < length (ps_g s))%nat
}.

Lemma mem_In : forall g l, mem g l = true <-> In g l.
Proof.
  intros g l. unfold mem. rewrite existsb_exists. split.
  - intros [x [Hx E]]. apply Nat.eqb_eq in E. now subst.
  - intros H. exists g. split; [exact H|apply Nat.eqb_refl].
Qed.

Lemma mem_remove_one_other : forall g g' l, g' <> g -> mem g' (remove_one g l) = mem g' l.
Proof.
  intros g g' l Hne. induction l as [|x l IH]; [reflexivity|]. cbn [remove_one].
  destruct (Nat.eqb_spec x g) as [->|Hx].
  - cbn [mem existsb]. destruct (Nat.eqb_spec g' g); [congruence|reflexivity].
  - unfold mem in *. cbn [existsb]. now rewrite IH.
Qed.

Lemma In_remove_one : forall g x l, In x (remove_one g l) -> In x l.
Proof.
  intros g x l. induction l as [|y l IH]; [auto|]. cbn [remove_one].
  destruct (Nat.eqb y g); cbn [In]; intuition.
Qed.

Lemma NoDup_remove_one : forall g l, NoDup l -> NoDup (remove_one g l) /\ mem g (remove_one g l) = false.
Proof.
  intros g l H. induction H as [|x l Hx Hl IH]; [split; [constructor|reflexivity]|].
  cbn [remove_one]. destruct (Nat.eqb_spec x g) as [->|Hne].
  - split; [exact Hl|]. destruct (mem g l) eqn:E; [|reflexivity]. apply mem_In in E. contradiction.
  - destruct IH as [IH1 IH2]. split.
    + constructor; [|exact IH1]. intros Hin. apply Hx. eapply In_remove_one; eauto.
    + unfold mem in *. cbn [existsb]. rewrite IH2. destruct (Nat.eqb_spec g x); [congruence|reflexivity].
Qed.

(* one lock event of g on the shared mutex agrees with g's private view *)
Lemma rw_ev_sim : forall g m e m' ds h' ds',
  rw_wf m -> rw_event g m e = Some m' -> ev_step (held_of g m) ds e = Some (h', ds') ->
  held_of g m' = h' /\ rw_wf m' /\ (forall g', g' <> g -> held_of g' m' = held_of g' m) /\
  (forall w, rw_writer m' = Some w -> w = g \/ rw_writer m = Some w) /\
  (forall r, In r (rw_readers m') -> r = g \/ In r (rw_readers m)).
Proof.
  intros g [w rs] e m' ds h' ds' [Hw Hnd] Hrw Hev. unfold held_of in *. cbn [rw_writer rw_readers] in *.
  destruct e; cbn [rw_event rw_writer rw_readers] in Hrw.
  - (* Lock *) destruct w; [discriminate|]. destruct rs; [|discriminate]. inversion Hrw; subst m'.
    cbn in Hev. inversion Hev; subst. cbn [rw_writer rw_readers mem existsb]. rewrite Nat.eqb_refl.
    split; [reflexivity|]. split; [split; [reflexivity|constructor]|]. split; [|split].
    + intros g' Hne. destruct (Nat.eqb_spec g g'); [congruence|reflexivity].
    + intros w E; inversion E; auto.
    + intros r [].
  - (* RLock *) destruct w; [discriminate|]. inversion Hrw; subst m'.
    destruct (mem g rs) eqn:Em; cbn in Hev; [discriminate|]. inversion Hev; subst.
    cbn [rw_writer rw_readers]. unfold mem at 1. cbn [existsb]. rewrite Nat.eqb_refl. cbn [orb].
    split; [reflexivity|]. split; [split; [discriminate|]|]; [|split; [|split]].
    + constructor; [|exact Hnd]. intros Hin. apply mem_In in Hin. congruence.
    + intros g' Hne. unfold mem. cbn [existsb]. destruct (Nat.eqb_spec g' g); [congruence|reflexivity].
    + discriminate.
    + intros r [<-|Hr]; auto.
  - (* Unlock *) destruct w as [w|]; [|discriminate]. inversion Hrw; subst m'.
    pose proof (Hw _ eq_refl) as Hrs. subst rs. cbn [mem existsb] in *.
    destruct (Nat.eqb_spec w g) as [->|Hne]; cbn in Hev; [|discriminate]. inversion Hev; subst.
    cbn [rw_writer rw_readers mem existsb].
    split; [reflexivity|]. split; [split; [discriminate|constructor]|]. split; [|split].
    + intros g' Hne. destruct (Nat.eqb_spec g g'); [congruence|reflexivity].
    + discriminate.
    + intros r [].
  - (* RUnlock *) fold (mem g rs) in Hrw. destruct (mem g rs) eqn:Em; [|discriminate]. inversion Hrw; subst m'.
    assert (Hwn : w = None).
    { destruct w as [w|]; [|reflexivity]. rewrite (Hw _ eq_refl) in Em. discriminate. }
    subst w. cbn in Hev. inversion Hev; subst. cbn [rw_writer rw_readers].
    destruct (NoDup_remove_one g rs Hnd) as [N1 N2]. rewrite N2.
    split; [reflexivity|]. split; [split; [discriminate|exact N1]|]. split; [|split].
    + intros g' Hne. now rewrite mem_remove_one_other.
    + discriminate.
    + intros r Hr. right. eapply In_remove_one; eauto.
  - (* DeferUnlock *) inversion Hrw; subst m'. cbn [rw_writer rw_readers].
    assert (E : h' = match w with Some w0 => if Nat.eqb w0 g then HeldW else if mem g rs then HeldR else Free
                              | None => if mem g rs then HeldR else Free end).
    { destruct w as [w0|]; [destruct (Nat.eqb w0 g)|]; try destruct (mem g rs); cbn in Hev; inversion Hev; reflexivity. }
    split; [now symmetry|]. split; [split; assumption|]. split; [reflexivity|]. split; auto.
  - (* DeferRUnlock *) inversion Hrw; subst m'. cbn [rw_writer rw_readers].
    assert (E : h' = match w with Some w0 => if Nat.eqb w0 g then HeldW else if mem g rs then HeldR else Free
                              | None => if mem g rs then HeldR else Free end).
    { destruct w as [w0|]; [destruct (Nat.eqb w0 g)|]; try destruct (mem g rs); cbn in Hev; inversion Hev; reflexivity. }
    split; [now symmetry|]. split; [split; assumption|]. split; [reflexivity|]. split; auto.
Qed.

Lemma PInv_init : forall todo, Forall (fun ps => forallb balanced ps = true) todo -> PInv (pinit todo).
Proof.
  intros todo H. constructor; cbn [pinit ps_rw ps_g rw_writer rw_readers].
  - split; [discriminate|constructor].
  - intros g p Hn. apply nth_error_In, in_map_iff in Hn. destruct Hn as [t [<- Ht]].
    split; [reflexivity|]. cbn [pg_todo]. rewrite Forall_forall in H. now apply H.
  - discriminate.
  - intros r [].
Qed.

Definition push_defer (e : lock_event) (ds : list lock_event) : list lock_event :=
  match e with DeferUnlock => Unlock :: ds | DeferRUnlock => RUnlock :: ds | _ => ds end.

Lemma ev_step_defers : forall h ds e h' d', ev_step h ds e = Some (h', d') -> d' = push_defer e ds.
Proof. intros h ds e h' d' H. destruct e, h; cbn in H; inversion H; reflexivity. Qed.

Lemma pstep_cur : forall s g e r ds todo s',
  nth_error (ps_g s) g = Some (mkPG (e :: r) ds todo) -> pstep s g = Some s' ->
  exists m', rw_event g (ps_rw s) e = Some m' /\
             s' = mkPS (upd g (mkPG r (push_defer e ds) todo) (ps_g s)) m'.
Proof.
  intros s g e r ds todo s' Hn H. unfold pstep in H. rewrite Hn in H. cbn [pg_cur pg_defers pg_todo] in H.
  destruct e; cbn [push_defer rw_event];
    try (destruct (rw_event g (ps_rw s) _) as [m'|] eqn:E; [|discriminate]; inversion H; subst;
         cbn [rw_event] in E; exists m'; split; [exact E|reflexivity]);
    inversion H; subst; eexists; split; reflexivity.
Qed.

(* transfer of the invariant to the goroutines other than the one that moved *)
Lemma PInv_update : forall s g p p' m',
  PInv s -> nth_error (ps_g s) g = Some p ->
  rw_wf m' -> rest_ok (held_of g m') p' -> forallb balanced (pg_todo p') = true ->
  (forall g', g' <> g -> held_of g' m' = held_of g' (ps_rw s)) ->
  (forall w, rw_writer m' = Some w -> w = g \/ rw_writer (ps_rw s) = Some w) ->
  (forall r, In r (rw_readers m') -> r = g \/ In r (rw_readers (ps_rw s))) ->
  PInv (mkPS (upd g p' (ps_g s)) m').
Proof.
  intros s g p p' m' I Hn Hwf Hrest Htodo Hoth Hw Hr.
  assert (Hlt : (g < length (ps_g s))%nat) by (apply nth_error_Some; congruence).
  constructor; cbn [ps_g ps_rw].
  - exact Hwf.
  - intros g' q. rewrite nth_error_upd. destruct (Nat.eqb_spec g g') as [<-|Hne].
    + rewrite Hn. intros E; inversion E; subst. auto.
    + intros Hq. rewrite Hoth by congruence. apply (pi_rest _ I _ _ Hq).
  - intros w E. rewrite length_upd. destruct (Hw _ E) as [->|E']; [exact Hlt|apply (pi_writer _ I _ E')].
  - intros r E. rewrite length_upd. destruct (Hr _ E) as [->|E']; [exact Hlt|apply (pi_readers _ I _ E')].
Qed.

Lemma PInv_step : forall s g s', PInv s -> pstep s g = Some s' -> PInv s'.
Proof.
  intros s g s' I H. destruct (nth_error (ps_g s) g) as [[cur ds todo]|] eqn:Hn;
    [|unfold pstep in H; rewrite Hn in H; discriminate].
  destruct (pi_rest _ I _ _ Hn) as [Hrest Htodo]. cbn [pg_todo] in Htodo.
  destruct cur as [|e r].
  - destruct ds as [|e ds].
    + (* start the next path *)
      unfold pstep in H. rewrite Hn in H. cbn [pg_cur pg_defers pg_todo] in H.
      destruct todo as [|nxt more]; [discriminate|]. inversion H; subst s'.
      unfold rest_ok in Hrest. cbn [pg_cur pg_defers ev_run run_defers] in Hrest.
      cbn [forallb] in Htodo. apply andb_true_iff in Htodo. destruct Htodo as [Hb Hmore].
      apply PInv_update with (p := mkPG [] [] (nxt :: more)); auto.
      * apply (pi_wf _ I).
      * inversion Hrest as [Hfree]. rewrite Hfree. apply balanced_exec in Hb. unfold exec_path in Hb.
        unfold rest_ok. cbn [pg_cur pg_defers]. destruct (ev_run Free [] nxt) as [[h' d']|]; [exact Hb|discriminate].
    + (* returning: run one deferred call *)
      unfold pstep in H. rewrite Hn in H. cbn [pg_cur pg_defers pg_todo] in H.
      destruct (rw_event g (ps_rw s) e) as [m'|] eqn:E; [|discriminate]. inversion H; subst s'.
      unfold rest_ok in Hrest. cbn [pg_cur pg_defers ev_run run_defers] in Hrest.
      destruct (ev_step (held_of g (ps_rw s)) [] e) as [[h' d']|] eqn:Ev; [|discriminate].
      destruct (rw_ev_sim _ _ _ _ _ _ _ (pi_wf _ I) E Ev) as [Hh [Hwf [Hoth [Hw Hr]]]].
      apply PInv_update with (p := mkPG [] (e :: ds) todo); auto.
      unfold rest_ok. cbn [pg_cur pg_defers ev_run]. now rewrite Hh.
  - (* an event of the current path *)
    destruct (pstep_cur _ _ _ _ _ _ _ Hn H) as [m' [E ->]].
    unfold rest_ok in Hrest. cbn [pg_cur pg_defers ev_run] in Hrest.
    destruct (ev_step (held_of g (ps_rw s)) ds e) as [[h' d']|] eqn:Ev; [|contradiction].
    pose proof (ev_step_defers _ _ _ _ _ Ev) as Hd. subst d'.
    destruct (rw_ev_sim _ _ _ _ _ _ _ (pi_wf _ I) E Ev) as [Hh [Hwf [Hoth [Hw Hr]]]].
    apply PInv_update with (p := mkPG (e :: r) ds todo); auto.
    unfold rest_ok. cbn [pg_cur pg_defers]. now rewrite Hh.
Qed.

Lemma PInv_run : forall sched s s', PInv s -> prun s sched = Some s' -> PInv s'.
Proof.
  induction sched as [|g r IH]; intros s s' I H; cbn [prun] in H.
  - now inversion H; subst.
  - destruct (pstep s g) as [s1|] eqn:E; [|discriminate]. eapply IH; [|exact H]. eapply PInv_step; eauto.
Qed.

(* a goroutine whose private view says "can proceed" is enabled on the shared mutex *)
Lemma enabled_of_rest : forall s g p, PInv s -> nth_error (ps_g s) g = Some p -> pg_finished p = false ->
  (match rw_writer (ps_rw s) with Some w => w = g | None =>
     match rw_readers (ps_rw s) with r :: _ => r = g | [] => True end end) ->
  pstep s g <> None.
Proof.
  intros s g [cur ds todo] I Hn Hfin Hown. destruct (pi_rest _ I _ _ Hn) as [Hrest _].
  destruct (pi_wf _ I) as [Hw Hnd].
  unfold pstep. rewrite Hn. cbn [pg_cur pg_defers pg_todo]. unfold rest_ok in Hrest. cbn [pg_cur pg_defers] in Hrest.
  assert (Hev : forall e dd, ev_step (held_of g (ps_rw s)) dd e <> None ->
                 rw_event g (ps_rw s) e <> None).
  { intros e dd Hne. unfold held_of in Hne. destruct (ps_rw s) as [w rs]. cbn [rw_writer rw_readers] in *.
    destruct w as [w|].
    - subst w. rewrite Nat.eqb_refl in Hne. rewrite (Hw _ eq_refl). destruct e; cbn in *; congruence.
    - destruct rs as [|r rs].
      + destruct e; cbn in *; congruence.
      + subst r. unfold mem in Hne. cbn [existsb] in Hne. rewrite Nat.eqb_refl in Hne. cbn [orb] in Hne.
        destruct e; cbn [rw_event rw_writer rw_readers existsb] in *; try rewrite Nat.eqb_refl; cbn in *; congruence. }
  destruct cur as [|e r].
  - destruct ds as [|e ds].
    + destruct todo; [discriminate|discriminate].
    + cbn [ev_run run_defers] in Hrest.
      destruct (ev_step (held_of g (ps_rw s)) [] e) as [[h' d']|] eqn:Ev; [|discriminate].
      assert (Hne : rw_event g (ps_rw s) e <> None) by (apply (Hev e []); congruence).
      destruct (rw_event g (ps_rw s) e); [discriminate|congruence].
  - cbn [ev_run] in Hrest.
    destruct (ev_step (held_of g (ps_rw s)) ds e) as [[h' d']|] eqn:Ev; [|contradiction].
    assert (Hne : rw_event g (ps_rw s) e <> None) by (apply (Hev e ds); congruence).
    destruct e; try discriminate; destruct (rw_event g (ps_rw s) _); try discriminate; congruence.
Qed.

Lemma psys_progress : forall s, PInv s ->
  (exists g p, nth_error (ps_g s) g = Some p /\ pg_finished p = false) ->
  exists g, pstep s g <> None.
Proof.
  intros s I [g0 [p0 [Hn0 Hf0]]].
  assert (Hheld : forall g p, nth_error (ps_g s) g = Some p -> held_of g (ps_rw s) <> Free -> pg_finished p = false).
  { intros g [cur ds todo] Hn Hh. destruct (pi_rest _ I _ _ Hn) as [Hrest _]. unfold rest_ok in Hrest.
    cbn [pg_cur pg_defers] in Hrest. destruct cur; [|reflexivity]. destruct ds; [|reflexivity].
    cbn [ev_run run_defers] in Hrest. inversion Hrest. congruence. }
  destruct (rw_writer (ps_rw s)) as [w|] eqn:Ew.
  - pose proof (pi_writer _ I _ Ew) as Hlt. apply nth_error_Some in Hlt.
    destruct (nth_error (ps_g s) w) as [p|] eqn:Hn; [|congruence]. exists w.
    apply enabled_of_rest with p; auto.
    + apply (Hheld _ _ Hn). unfold held_of. rewrite Ew, Nat.eqb_refl. discriminate.
    + now rewrite Ew.
  - destruct (rw_readers (ps_rw s)) as [|r rs] eqn:Er.
    + exists g0. apply enabled_of_rest with p0; auto. now rewrite Ew, Er.
    + assert (Hlt : (r < length (ps_g s))%nat) by (apply (pi_readers _ I); rewrite Er; now left).
      apply nth_error_Some in Hlt. destruct (nth_error (ps_g s) r) as [p|] eqn:Hn; [|congruence]. exists r.
      apply enabled_of_rest with p; auto.
      * apply (Hheld _ _ Hn). unfold held_of. rewrite Ew, Er. unfold mem. cbn [existsb]. rewrite Nat.eqb_refl. discriminate.
      * now rewrite Ew, Er.
Qed.

(* the two facts together, from the initial state, for every schedule *)
Lemma psys_safe_and_live : forall todo sched s,
  Forall (fun ps => forallb balanced ps = true) todo -> prun (pinit todo) sched = Some s ->
  (* exclusion: a writer excludes everybody else, readers exclude writers *)
  ((forall w, rw_writer (ps_rw s) = Some w -> rw_readers (ps_rw s) = []) /\
   (forall w, rw_writer (ps_rw s) = Some w -> (w < length (ps_g s))%nat) /\
   (forall r, In r (rw_readers (ps_rw s)) -> (r < length (ps_g s))%nat)) /\
  (* no deadlock *)
  ((exists g p, nth_error (ps_g s) g = Some p /\ pg_finished p = false) -> exists g, pstep s g <> None) /\
  (* when everybody has finished the mutex is free *)
  ((forall g p, nth_error (ps_g s) g = Some p -> pg_finished p = true) ->
   rw_writer (ps_rw s) = None /\ rw_readers (ps_rw s) = []).
Proof.
  intros todo sched s Hb Hrun. pose proof (PInv_run _ _ _ (PInv_init _ Hb) Hrun) as I.
  split; [|split].
  - destruct (pi_wf _ I) as [Hw _]. split; [exact Hw|]. split; [apply (pi_writer _ I)|apply (pi_readers _ I)].
  - apply psys_progress. exact I.
  - intros Hall.
    assert (Hfree : forall g p, nth_error (ps_g s) g = Some p -> held_of g (ps_rw s) = Free).
    { intros g [cur ds td] Hn. pose proof (Hall _ _ Hn) as Hf. unfold pg_finished in Hf. cbn in Hf.
      destruct cur; [|discriminate]. destruct ds; [|discriminate].
      destruct (pi_rest _ I _ _ Hn) as [Hrest _]. unfold rest_ok in Hrest. cbn in Hrest. now inversion Hrest. }
    split.
    + destruct (rw_writer (ps_rw s)) as [w|] eqn:Ew; [|reflexivity]. exfalso.
      pose proof (pi_writer _ I _ Ew) as Hlt. apply nth_error_Some in Hlt.
      destruct (nth_error (ps_g s) w) as [p|] eqn:Hn; [|congruence].
      pose proof (Hfree _ _ Hn) as Hf. unfold held_of in Hf. rewrite Ew, Nat.eqb_refl in Hf. discriminate.
    + destruct (rw_readers (ps_rw s)) as [|r rs] eqn:Er; [reflexivity|]. exfalso.
      assert (Hlt : (r < length (ps_g s))%nat) by (apply (pi_readers _ I); rewrite Er; now left).
      apply nth_error_Some in Hlt. destruct (nth_error (ps_g s) r) as [p|] eqn:Hn; [|congruence].
      pose proof (Hfree _ _ Hn) as Hf. unfold held_of in Hf. rewrite Er in Hf. unfold mem in Hf. cbn [existsb] in Hf.
      rewrite Nat.eqb_refl in Hf. cbn [orb] in Hf. destruct (rw_writer (ps_rw s)) as [w|]; [destruct (Nat.eqb w r)|]; discriminate.
Qed.
