(* C01: every compressing collector kind writes a sequence of chunk documents, one
   per group of consecutive input documents, and the reader turns them back into
   the inputs with their non-metric leaves removed.
   The grouping is not computed: each kind maintains an invariant that says "the
   documents consumed so far are the concatenation of these groups", whatever the
   reason for a group boundary (chunk size, schema hash change). *)
From Coq Require Import ZArith NArith List Bool Lia Arith.
From FV.Model Require Import Bytes Bson Metrics Codec Collector.
From FV.Proofs Require Import BytesProofs BsonProofs MetricsProofs CodecChunk.
From FV.Model Require Import Wf RoundTrip.
Import ListNotations.
Open Scope Z_scope.

(* ------------------------------------------------------------------ list facts *)
Lemma cp_last_in : forall (A : Type) (l : list A) d, In (last l d) (d :: l).
Proof.
  intros A l. induction l as [|a r IH]; intros d; [left; reflexivity|].
  rewrite cc_last_cons. right. apply IH.
Qed.

Lemma cp_Forall2_snoc_inv : forall (A B : Type) (R : A -> B -> Prop) (l1 : list A) (l2 : list B),
  Forall2 R l1 l2 -> l2 <> [] ->
  exists l1' a l2' b, l1 = l1' ++ [a] /\ l2 = l2' ++ [b] /\ Forall2 R l1' l2' /\ R a b.
Proof.
  intros A B R l1 l2 HF Hne.
  destruct (exists_last Hne) as [l2' [b E2]]. subst l2.
  apply Forall2_app_inv_r in HF. destruct HF as [l1' [la [HF1 [HF2 E1]]]].
  inversion HF2 as [|a b' ra rb Hab Hnil]; subst. inversion Hnil; subst.
  exists l1', a, l2', b. repeat split; assumption.
Qed.

Lemma cp_Forall2_single : forall (A B : Type) (R : A -> B -> Prop) (l : list A) (x : B),
  Forall2 R l [x] -> exists a, l = [a] /\ R a x.
Proof.
  intros A B R l x HF. inversion HF as [|a x' r r' Hax Hr]; subst. inversion Hr; subst.
  exists a. split; [reflexivity|exact Hax].
Qed.

Lemma cp_Forall2_snoc : forall (A B : Type) (R : A -> B -> Prop) l1 l2 a b,
  Forall2 R l1 l2 -> R a b -> Forall2 R (l1 ++ [a]) (l2 ++ [b]).
Proof. intros A B R l1 l2 a b HF Hab. apply Forall2_app; [exact HF|constructor; [exact Hab|constructor]]. Qed.

Lemma cp_concat_snoc : forall (A : Type) (ls : list (list A)) l, concat (ls ++ [l]) = concat ls ++ l.
Proof. intros A ls l. rewrite concat_app. cbn [concat]. rewrite app_nil_r. reflexivity. Qed.

(* ------------------------------------------------------------------ the chunk _id is an int64 *)
Definition fts_elems := fix go (l : list (bytes * value)) : ts_res :=
  match l with [] => TsNone | (_, x) :: r => match first_ts x with TsNone => go r | t => t end end.
Definition fts_arr := fix go (l : list value) : ts_res :=
  match l with [] => TsNone | x :: r => match first_ts x with TsNone => go r | t => t end end.

Lemma first_ts_VDoc : forall d, first_ts (VDoc d) = match fts_elems d with TsNone => TsNow | t => t end.
Proof. reflexivity. Qed.
Lemma first_ts_VArr : forall a, first_ts (VArr a) = fts_arr a.
Proof. reflexivity. Qed.

Definition fts_P (v : value) : Prop := forall t, first_ts v = TsAt t -> value_ok v = true -> in_i64 t = true.

Lemma fts_elems_i64 : forall d, Forall (fun kv => fts_P (snd kv)) d ->
  forall t, fts_elems d = TsAt t -> doc_ok d = true -> in_i64 t = true.
Proof.
  intros d HF. induction HF as [|[k x] r Hx HF IH]; intros t Ht Hok; [discriminate Ht|].
  cbn [snd] in Hx. apply bs_doc_ok_cons in Hok. destruct Hok as (_ & Hvx & Hr).
  cbn [fts_elems] in Ht. fold fts_elems in Ht.
  destruct (first_ts x) as [| |t'] eqn:Ex.
  - apply IH; assumption.
  - discriminate Ht.
  - injection Ht as Ht. subst t'. apply Hx; [exact Ex|assumption].
Qed.

Lemma fts_arr_i64 : forall a, Forall fts_P a ->
  forall t, fts_arr a = TsAt t -> arr_ok a = true -> in_i64 t = true.
Proof.
  intros a HF. induction HF as [|x r Hx HF IH]; intros t Ht Hok; [discriminate Ht|].
  cbn [arr_ok] in Hok. apply andb_true_iff in Hok. destruct Hok as [Hvx Hr].
  cbn [fts_arr] in Ht. fold fts_arr in Ht.
  destruct (first_ts x) as [| |t'] eqn:Ex.
  - apply IH; assumption.
  - discriminate Ht.
  - injection Ht as Ht. subst t'. apply Hx; [exact Ex|assumption].
Qed.

Lemma first_ts_i64 : forall v, fts_P v.
Proof.
  induction v using MetricsProofs.value_ind'; unfold fts_P;
    try (intros ts Ht _; cbn in Ht; discriminate Ht).
  - intros t Ht Hok. rewrite first_ts_VDoc in Ht. rewrite bs_ok_VDoc in Hok.
    destruct (fts_elems d) as [| |t'] eqn:E; try discriminate Ht.
    injection Ht as Ht. subst t'. apply (fts_elems_i64 d H t E Hok).
  - intros t Ht Hok. rewrite first_ts_VArr in Ht. rewrite bs_ok_VArr in Hok.
    apply (fts_arr_i64 a H t Ht Hok).
  - intros t Ht Hok. cbn [first_ts] in Ht. cbn [value_ok] in Hok.
    destruct (ms =? go_zero_time_ms); [discriminate Ht|]. injection Ht as Ht. subst t. exact Hok.
Qed.

Lemma first_ts_doc_i64 : forall d t, first_ts_doc d = TsAt t -> doc_ok d = true -> in_i64 t = true.
Proof. intros d t Ht Hok. apply (first_ts_i64 (VDoc d) t Ht). rewrite bs_ok_VDoc. exact Hok. Qed.

(* ------------------------------------------------------------------ the base collector as a log *)
(* what the collector side needs of an input document *)
Definition dcol (sk : doc) (d : doc) : Prop := skeleton_doc d = sk /\ doc_ok d = true.

Definition good_bc (n : Z) (b : bcoll) (d0 : doc) (ds : list doc) : Prop :=
  bc_meta b = None /\ bc_ref b = Some d0 /\ in_i64 (bc_started b) = true /\
  bc_last b = flatten_doc (last ds d0) /\ bc_rows b = delta_rows d0 ds /\ bc_max b = n.

Definition empty_bc (n : Z) (b : bcoll) : Prop :=
  bc_meta b = None /\ bc_ref b = None /\ bc_rows b = [] /\ bc_max b = n.

(* the collector holds exactly the documents g (all of schema sk) *)
Definition bc_holds (n : Z) (sk : doc) (b : bcoll) (g : list doc) : Prop :=
  Forall (dcol sk) g /\ match g with [] => empty_bc n b | d0 :: ds => good_bc n b d0 ds end.

Lemma bc_new_holds : forall n sk, bc_holds n sk (bc_new n) [].
Proof. intros n sk. split; [constructor|]. repeat split. Qed.

Lemma bc_reset_holds : forall n sk b g, bc_holds n sk b g -> bc_holds n sk (bc_reset b) [].
Proof.
  intros n sk b g [_ Hst]. split; [constructor|].
  unfold empty_bc, bc_reset. cbn [bc_meta bc_ref bc_rows bc_max].
  destruct g as [|d0 ds].
  - destruct Hst as (Hm & _ & _ & Hx). repeat split; assumption.
  - destruct Hst as (Hm & _ & _ & _ & _ & Hx). repeat split; assumption.
Qed.

Lemma bc_info_holds : forall n sk b g, bc_holds n sk b g -> snd (bc_info b) = Z.of_nat (length g).
Proof.
  intros n sk b g [_ Hst]. unfold bc_info. cbn [snd]. destruct g as [|d0 ds].
  - destruct Hst as (_ & Href & Hrows & _). rewrite Href, Hrows. reflexivity.
  - destruct Hst as (_ & Href & _ & _ & Hrows & _). rewrite Href, Hrows, delta_rows_length.
    cbn [length]. lia.
Qed.

Lemma bc_add_holds : forall n sk b g d now,
  bc_holds n sk b g -> dcol sk d -> in_i64 now = true -> Z.of_nat (length g) <= n ->
  exists b', bc_add b d now = (b', AddOk) /\ bc_holds n sk b' (g ++ [d]).
Proof.
  intros n sk b g d now [Hall Hst] Hd Hnow Hlen. pose proof Hd as [Hsk Hok].
  destruct g as [|d0 ds].
  - destruct Hst as (Hmeta & Href & Hrows & Hmax).
    unfold bc_add. rewrite Href. eexists. split; [reflexivity|].
    split; [constructor; [exact Hd|constructor]|].
    cbn [app]. unfold good_bc. cbn [bc_meta bc_ref bc_started bc_last bc_rows bc_max last delta_rows].
    repeat split; try assumption.
    destruct (first_ts_doc d) as [| |t] eqn:E; try exact Hnow.
    apply (first_ts_doc_i64 d t E Hok).
  - destruct Hst as (Hmeta & Href & Hstart & Hlast & Hrows & Hmax).
    assert (Hlsk : skeleton_doc (last ds d0) = sk).
    { rewrite Forall_forall in Hall. apply (Hall _ (cp_last_in _ ds d0)). }
    unfold bc_add. rewrite Href, Hmax, Hrows, delta_rows_length.
    cbn [length] in Hlen.
    replace (n <=? Z.of_nat (length ds)) with false by (symmetry; apply Z.leb_gt; lia).
    rewrite Hlast.
    rewrite (same_skeleton_length d (last ds d0)) by congruence.
    rewrite Nat.eqb_refl. cbn [negb].
    rewrite types_agree_fst by (apply flatten_types_same_schema; congruence).
    cbn [negb]. eexists. split; [reflexivity|].
    split; [apply Forall_app; split; [exact Hall|constructor; [exact Hd|constructor]]|].
    cbn [app]. unfold good_bc. cbn [bc_meta bc_ref bc_started bc_last bc_rows bc_max].
    rewrite last_last, delta_rows_snoc. repeat split; try assumption.
Qed.

Section Coll.
Variable deflate : bytes -> bytes.

Lemma bc_resolve_holds : forall n sk b d0 ds,
  bc_holds n sk b (d0 :: ds) -> Z.of_nat (length ds) <= n ->
  exists cd, bc_resolve deflate b = Some [cd] /\ is_chunk deflate n cd (d0 :: ds).
Proof.
  intros n sk b d0 ds [Hall Hst] Hlen.
  destruct Hst as (Hmeta & Href & Hstart & Hlast & Hrows & Hmax).
  assert (Hlsk : skeleton_doc (last ds d0) = sk).
  { rewrite Forall_forall in Hall. apply (Hall _ (cp_last_in _ ds d0)). }
  assert (Hsk0 : skeleton_doc d0 = sk).
  { rewrite Forall_forall in Hall. apply (Hall d0). left. reflexivity. }
  unfold bc_resolve. rewrite Href, Hmeta, Hlast, Hrows.
  rewrite (same_skeleton_length (last ds d0) d0) by congruence.
  cbn [app]. eexists. split; [reflexivity|].
  exists (bc_started b), d0, ds. repeat split; assumption.
Qed.

(* ------------------------------------------------------------------ the writer *)
Definition w0 : writer := mkWriter [] [] false.

(* no faults scheduled, every record a complete FTDC write *)
Definition ftdc_log (w : writer) : Prop :=
  w_faults w = [] /\ Forall (fun r => exists ds, r = WFull (OFtdc ds)) (w_log w).

(* the emitted outer documents are the chunk documents of [groups], one each *)
Definition emits (n : Z) (w : writer) (groups : list (list doc)) : Prop :=
  ftdc_log w /\ Forall2 (is_chunk deflate n) (emitted w) groups.

Definition w_push (w : writer) (ds : list doc) : writer :=
  mkWriter (w_log w ++ [WFull (OFtdc ds)]) [] (w_closed w).

Lemma emitted_push : forall w ds, emitted (w_push w ds) = emitted w ++ ds.
Proof.
  intros w ds. unfold emitted, w_push. cbn [w_log]. rewrite flat_map_app. cbn [flat_map].
  rewrite app_nil_r. reflexivity.
Qed.

Lemma emits_w0 : forall n, emits n w0 [].
Proof. intros n. split; [split; [reflexivity|constructor]|constructor]. Qed.

Lemma emits_push_all : forall n w gs cds gs',
  emits n w gs -> Forall2 (is_chunk deflate n) cds gs' -> emits n (w_push w cds) (gs ++ gs').
Proof.
  intros n w gs cds gs' [[Hf Hlog] Hem] Hcds. split; [split|].
  - reflexivity.
  - unfold w_push. cbn [w_log]. apply Forall_app. split; [exact Hlog|].
    constructor; [exists cds; reflexivity|constructor].
  - rewrite emitted_push. apply Forall2_app; assumption.
Qed.

Lemma emits_push : forall n w gs cd g,
  emits n w gs -> is_chunk deflate n cd g -> emits n (w_push w [cd]) (gs ++ [g]).
Proof. intros n w gs cd g Hem Hcd. apply emits_push_all; [exact Hem|constructor; [exact Hcd|constructor]]. Qed.

Lemma flush_with_ok : forall (A : Type) (info : A -> Z * Z) (resolve : A -> option outp) (rst : A -> A) c w ds,
  snd (info c) <> 0 -> resolve c = Some (OFtdc ds) -> w_faults w = [] ->
  flush_with info resolve rst c w = (rst c, w_push w ds, true).
Proof.
  intros A info resolve rst c w ds Hinfo Hres Hf. unfold flush_with.
  rewrite (proj2 (Z.eqb_neq _ _) Hinfo), Hres. unfold w_write. rewrite Hf. reflexivity.
Qed.

(* ------------------------------------------------------------------ streaming collector *)
Definition stream_inv (n : Z) (sk : doc) (s : scoll) (w : writer) (done : list doc) : Prop :=
  exists b groups g, sc_inner s = IB b /\ sc_max s = n /\ sc_count s = Z.of_nat (length g) /\
    bc_holds n sk b g /\ Z.of_nat (length g) <= n /\ emits n w groups /\ concat groups ++ g = done.

Lemma stream_flush_data : forall n sk s w done, stream_inv n sk s w done -> 0 < sc_count s ->
  exists cd, in_resolve deflate (sc_inner s) = Some (OFtdc [cd]) /\ snd (in_info (sc_inner s)) <> 0 /\
             w_faults w = [] /\ stream_inv n sk (sc_reset s) (w_push w [cd]) done.
Proof.
  intros n sk s w done (b & groups & g & Hin & Hmax & Hcnt & Hb & Hlen & Hem & Hdone) Hpos.
  destruct g as [|d0 ds]; [cbn [length] in Hcnt; lia|].
  destruct (bc_resolve_holds n sk b d0 ds Hb) as [cd [Hres Hck]]; [cbn [length] in Hlen; lia|].
  exists cd. rewrite Hin. cbn [in_resolve in_info]. rewrite Hres. split; [reflexivity|].
  split. { rewrite (bc_info_holds _ _ _ _ Hb). cbn [length]. lia. }
  split. { apply Hem. }
  exists (bc_reset b), (groups ++ [d0 :: ds]), [].
  unfold sc_reset. rewrite Hin. cbn [sc_inner sc_max sc_count in_reset length].
  split; [reflexivity|]. split; [exact Hmax|]. split; [reflexivity|].
  split; [apply (bc_reset_holds n sk b _ Hb)|]. split; [lia|].
  split; [apply (emits_push n w groups cd _ Hem Hck)|].
  rewrite cp_concat_snoc, app_nil_r. exact Hdone.
Qed.

Definition sc_add_tail (s1 : scoll) (w1 : writer) (d : doc) (now : Z) : scoll * writer * ares :=
  let '(i', r) := in_add (sc_inner s1) d now in
  match r with
  | ROk => (mkScoll (sc_max s1) (sc_count s1 + 1) i', w1, ROk)
  | _ => (mkScoll (sc_max s1) (sc_count s1) i', w1, r)
  end.

Lemma sc_add_eq : forall s w d now,
  sc_add deflate s w d now =
  match (if sc_max s <=? sc_count s then sc_flush deflate s w else (s, w, true)) with
  | (s1, w1, ok) => if negb ok then (s1, w1, RFlush) else sc_add_tail s1 w1 d now
  end.
Proof. reflexivity. Qed.

Lemma sc_add_tail_ok : forall n sk s w done d now,
  stream_inv n sk s w done -> sc_count s < n -> dcol sk d -> in_i64 now = true ->
  exists s', sc_add_tail s w d now = (s', w, ROk) /\ stream_inv n sk s' w (done ++ [d]) /\ 0 < sc_count s'.
Proof.
  intros n sk s w done d now (b & groups & g & Hin & Hmax & Hcnt & Hb & Hlen & Hem & Hdone) Hlt Hd Hnow.
  destruct (bc_add_holds n sk b g d now Hb Hd Hnow Hlen) as [b' [Hadd Hb']].
  unfold sc_add_tail. rewrite Hin. cbn [in_add]. rewrite Hadd. cbn [of_add_res].
  eexists. split; [reflexivity|]. cbn [sc_count]. split; [|lia].
  exists b', groups, (g ++ [d]). cbn [sc_inner sc_max sc_count].
  rewrite app_length. cbn [length].
  split; [reflexivity|]. split; [exact Hmax|]. split; [lia|].
  split; [exact Hb'|]. split; [lia|]. split; [exact Hem|].
  rewrite app_assoc, Hdone. reflexivity.
Qed.

Lemma sc_flush_ok : forall n sk s w done, stream_inv n sk s w done -> 0 < sc_count s ->
  exists cd, sc_flush deflate s w = (sc_reset s, w_push w [cd], true) /\
             stream_inv n sk (sc_reset s) (w_push w [cd]) done.
Proof.
  intros n sk s w done Hinv Hpos.
  destruct (stream_flush_data n sk s w done Hinv Hpos) as [cd (Hres & Hinfo & Hf & Hinv')].
  exists cd. split; [|exact Hinv'].
  unfold sc_flush. apply (flush_with_ok scoll (fun s => in_info (sc_inner s))); assumption.
Qed.

Lemma sc_add_ok : forall n sk s w done d now, 1 <= n ->
  stream_inv n sk s w done -> dcol sk d -> in_i64 now = true ->
  exists s' w', sc_add deflate s w d now = (s', w', ROk) /\ stream_inv n sk s' w' (done ++ [d]) /\ 0 < sc_count s'.
Proof.
  intros n sk s w done d now Hn Hinv Hd Hnow. rewrite sc_add_eq.
  assert (Hmax : sc_max s = n) by (destruct Hinv as (b & groups & g & _ & Hmax & _); exact Hmax).
  rewrite Hmax. destruct (n <=? sc_count s) eqn:E.
  - apply Z.leb_le in E.
    destruct (sc_flush_ok n sk s w done Hinv) as [cd [Hfl Hinv']]; [lia|].
    rewrite Hfl. cbn [negb].
    destruct (sc_add_tail_ok n sk (sc_reset s) (w_push w [cd]) done d now Hinv') as [s' Hs']; try assumption.
    { unfold sc_reset. cbn [sc_count]. lia. }
    exists s', (w_push w [cd]). exact Hs'.
  - apply Z.leb_gt in E. cbn [negb].
    destruct (sc_add_tail_ok n sk s w done d now Hinv E Hd Hnow) as [s' Hs'].
    exists s', w. exact Hs'.
Qed.

(* ------------------------------------------------------------------ streaming dynamic collector *)
Lemma sd_flush_ok : forall n sk c w done, stream_inv n sk (sd_s c) w done -> 0 < sc_count (sd_s c) ->
  exists cd, sd_flush deflate c w = (sd_reset c, w_push w [cd], true) /\
             stream_inv n sk (sc_reset (sd_s c)) (w_push w [cd]) done.
Proof.
  intros n sk c w done Hinv Hpos.
  destruct (stream_flush_data n sk (sd_s c) w done Hinv Hpos) as [cd (Hres & Hinfo & Hf & Hinv')].
  exists cd. split; [|exact Hinv'].
  unfold sd_flush. apply (flush_with_ok sdcoll (fun c => in_info (sc_inner (sd_s c)))); assumption.
Qed.

Lemma sd_add_ok : forall n sk c w done d now, 1 <= n ->
  stream_inv n sk (sd_s c) w done -> dcol sk d -> in_i64 now = true ->
  exists c' w', sd_add deflate c w d now = (c', w', ROk) /\
                stream_inv n sk (sd_s c') w' (done ++ [d]) /\ 0 < sc_count (sd_s c').
Proof.
  intros n sk c w done d now Hn Hinv Hd Hnow.
  unfold sd_add. destruct (schema_sig d) as [sig num]. cbv zeta.
  match goal with |- context [if ?b then _ else (c, w, true)] => destruct b end.
  - destruct (0 <? sc_count (sd_s c)) eqn:E.
    + apply Z.ltb_lt in E.
      destruct (sd_flush_ok n sk c w done Hinv E) as [cd [Hfl Hinv']].
      rewrite Hfl. cbn [negb sd_s sd_reset sd_hash sd_mcount].
      destruct (sc_add_ok n sk _ _ done d now Hn Hinv' Hd Hnow) as [s' [w' [Hadd Hs']]].
      rewrite Hadd. eexists. eexists. split; [reflexivity|]. cbn [sd_s]. exact Hs'.
    + cbn [negb sd_s sd_hash sd_mcount].
      destruct (sc_add_ok n sk _ _ done d now Hn Hinv Hd Hnow) as [s' [w' [Hadd Hs']]].
      rewrite Hadd. eexists. eexists. split; [reflexivity|]. cbn [sd_s]. exact Hs'.
  - cbn [negb].
    destruct (sc_add_ok n sk _ _ done d now Hn Hinv Hd Hnow) as [s' [w' [Hadd Hs']]].
    rewrite Hadd. eexists. eexists. split; [reflexivity|]. cbn [sd_s]. exact Hs'.
Qed.

(* ------------------------------------------------------------------ batch collector *)
Definition batch_inv (n : Z) (sk : doc) (b : batch) (done : list doc) : Prop :=
  ba_max b = n /\ exists groups, Forall2 (bc_holds n sk) (ba_chunks b) groups /\ concat groups = done /\
    Forall (fun g => Z.of_nat (length g) <= n) groups /\ groups <> [] /\
    (groups = [[]] \/ Forall (fun g : list doc => g <> []) groups).

Lemma ba_new_inv : forall n sk, 0 <= n -> batch_inv n sk (ba_new n) [].
Proof.
  intros n sk Hn. split; [reflexivity|]. exists [[]]. cbn [ba_new ba_chunks].
  split; [constructor; [apply bc_new_holds|constructor]|].
  split; [reflexivity|]. split; [constructor; [cbn [length]; lia|constructor]|].
  split; [discriminate|]. left. reflexivity.
Qed.

Lemma shape_init : forall (gs : list (list doc)) g,
  (gs ++ [g] = [[]] \/ Forall (fun g : list doc => g <> []) (gs ++ [g])) ->
  Forall (fun g : list doc => g <> []) gs.
Proof.
  intros gs g [H|H].
  - change [[]] with ([] ++ [@nil doc]) in H. apply app_inj_tail in H. destruct H as [H _]. subst gs. constructor.
  - apply Forall_app in H. apply H.
Qed.

Lemma ba_add_ok : forall n sk b done d now, 1 <= n ->
  batch_inv n sk b done -> dcol sk d -> in_i64 now = true ->
  exists b', ba_add b d now = (b', ROk) /\ batch_inv n sk b' (done ++ [d]).
Proof.
  intros n sk b done d now Hn (Hmax & groups & HF & Hcat & Hlens & Hne & Hshape) Hd Hnow.
  destruct (cp_Forall2_snoc_inv _ _ _ _ _ HF Hne) as (cs & c & gs & g & Ecs & Egs & HF' & Hc).
  subst groups. rewrite Ecs in HF.
  pose proof (shape_init gs g Hshape) as Hgs.
  apply Forall_app in Hlens. destruct Hlens as [Hlgs Hlg].
  assert (Hlg' : Z.of_nat (length g) <= n) by (inversion Hlg; assumption).
  unfold ba_add. rewrite Ecs, last_last, removelast_last, Hmax, (bc_info_holds _ _ _ _ Hc).
  destruct (n <=? Z.of_nat (length g)) eqn:E.
  - apply Z.leb_le in E.
    destruct (bc_add_holds n sk (bc_new n) [] d now (bc_new_holds n sk) Hd Hnow) as [c' [Hadd Hc']];
      [cbn [length]; lia|].
    rewrite Hadd. cbn [of_add_res]. eexists. split; [reflexivity|].
    split; [reflexivity|]. exists ((gs ++ [g]) ++ [[d]]). cbn [ba_chunks].
    split; [apply cp_Forall2_snoc; assumption|].
    split; [rewrite cp_concat_snoc, Hcat; reflexivity|].
    split. { apply Forall_app. split; [apply Forall_app; split; assumption|].
             constructor; [cbn [length]; lia|constructor]. }
    split. { intro H. apply app_eq_nil in H. destruct H as [_ H]. discriminate H. }
    right. apply Forall_app. split; [apply Forall_app; split; [exact Hgs|]|].
    + constructor; [|constructor]. intro Hg. subst g. cbn [length] in E. lia.
    + constructor; [discriminate|constructor].
  - apply Z.leb_gt in E.
    destruct (bc_add_holds n sk c g d now Hc Hd Hnow Hlg') as [c' [Hadd Hc']].
    rewrite Hadd. cbn [of_add_res]. eexists. split; [reflexivity|].
    split; [reflexivity|]. exists (gs ++ [g ++ [d]]). cbn [ba_chunks].
    split; [apply cp_Forall2_snoc; assumption|].
    split; [rewrite cp_concat_snoc, <- Hcat, cp_concat_snoc, app_assoc; reflexivity|].
    split. { apply Forall_app. split; [assumption|]. constructor; [|constructor].
             rewrite app_length. cbn [length]. lia. }
    split. { intro H. apply app_eq_nil in H. destruct H as [_ H]. discriminate H. }
    right. apply Forall_app. split; [exact Hgs|]. constructor; [|constructor].
    intro H. apply app_eq_nil in H. destruct H as [_ H]. discriminate H.
Qed.

Definition resolve_step (acc : option (list doc)) (c : bcoll) : option (list doc) :=
  match acc, bc_resolve deflate c with Some a, Some x => Some (a ++ x) | _, _ => None end.

Lemma ba_resolve_eq : forall b, ba_resolve deflate b = fold_left resolve_step (ba_chunks b) (Some []).
Proof. reflexivity. Qed.

Lemma resolve_fold : forall n sk cs groups, Forall2 (bc_holds n sk) cs groups ->
  Forall (fun g => Z.of_nat (length g) <= n) groups -> Forall (fun g : list doc => g <> []) groups ->
  forall acc, exists cds, fold_left resolve_step cs (Some acc) = Some (acc ++ cds) /\
                          Forall2 (is_chunk deflate n) cds groups.
Proof.
  intros n sk cs groups HF. induction HF as [|c g cs groups Hc HF IH]; intros Hlens Hnes acc.
  - exists []. split; [rewrite app_nil_r; reflexivity|constructor].
  - inversion Hlens as [|x y Hlg Hlens']; subst. inversion Hnes as [|x y Hneg Hnes']; subst.
    destruct g as [|d0 ds]; [congruence|].
    destruct (bc_resolve_holds n sk c d0 ds Hc) as [cd [Hres Hck]]; [cbn [length] in Hlg; lia|].
    destruct (IH Hlens' Hnes' (acc ++ [cd])) as [cds [Hfold Hcds]].
    exists (cd :: cds). split; [|constructor; assumption].
    cbn [fold_left]. unfold resolve_step at 2. rewrite Hres, Hfold, <- app_assoc. reflexivity.
Qed.

Definition info_step : Z * Z -> bcoll -> Z * Z :=
  fun '(m, s) c => let '(m', s') := bc_info c in (m + m', s + s').

Lemma ba_info_eq : forall b, ba_info b = fold_left info_step (ba_chunks b) (0, 0).
Proof. reflexivity. Qed.

Lemma info_fold : forall n sk cs groups, Forall2 (bc_holds n sk) cs groups -> forall m s,
  snd (fold_left info_step cs (m, s)) = s + Z.of_nat (length (concat groups)).
Proof.
  intros n sk cs groups HF. induction HF as [|c g cs groups Hc HF IH]; intros m s.
  - cbn [fold_left snd concat length]. lia.
  - cbn [fold_left]. unfold info_step at 2. pose proof (bc_info_holds _ _ _ _ Hc) as Hi.
    destruct (bc_info c) as [m' s']. cbn [snd] in Hi. rewrite IH. cbn [concat].
    rewrite app_length. lia.
Qed.

Lemma ba_info_inv : forall n sk b done, batch_inv n sk b done -> snd (ba_info b) = Z.of_nat (length done).
Proof.
  intros n sk b done (_ & groups & HF & Hcat & _). rewrite ba_info_eq, (info_fold n sk _ _ HF), Hcat. lia.
Qed.

Lemma ba_resolve_inv : forall n sk b done, batch_inv n sk b done -> done <> [] ->
  exists cds groups, ba_resolve deflate b = Some cds /\ Forall2 (is_chunk deflate n) cds groups /\
                     concat groups = done.
Proof.
  intros n sk b done (_ & groups & HF & Hcat & Hlens & _ & Hshape) Hne.
  assert (Hnes : Forall (fun g : list doc => g <> []) groups).
  { destruct Hshape as [H|H]; [|exact H]. subst groups. cbn [concat app] in Hcat. congruence. }
  destruct (resolve_fold n sk _ _ HF Hlens Hnes []) as [cds [Hfold Hcds]].
  exists cds, groups. rewrite ba_resolve_eq, Hfold. repeat split; assumption.
Qed.

(* ------------------------------------------------------------------ dynamic collector *)
Definition dyn_inv (n : Z) (sk : doc) (c : dyn) (done : list doc) : Prop :=
  dy_max c = n /\ exists dns, Forall2 (batch_inv n sk) (dy_chunks c) dns /\ concat dns = done /\ dns <> [] /\
    match dy_hash c with
    | None => length dns = 1%nat
    | Some _ => Forall (fun dn : list doc => dn <> []) dns
    end.

Lemma dy_new_inv : forall n sk, 0 <= n -> dyn_inv n sk (dy_new n) [].
Proof.
  intros n sk Hn. split; [reflexivity|]. exists [[]]. cbn [dy_new dy_chunks dy_hash].
  split; [constructor; [apply ba_new_inv; exact Hn|constructor]|].
  split; [reflexivity|]. split; [discriminate|reflexivity].
Qed.

Lemma snoc_nonempty : forall (A : Type) (l : list A) a, l ++ [a] <> [].
Proof. intros A l a H. apply app_eq_nil in H. destruct H as [_ H]. discriminate H. Qed.

Lemma dy_add_ok : forall n sk c done d now, 1 <= n ->
  dyn_inv n sk c done -> dcol sk d -> in_i64 now = true ->
  exists c', dy_add c d now = (c', ROk) /\ dyn_inv n sk c' (done ++ [d]).
Proof.
  intros n sk c done d now Hn (Hmax & dns & HF & Hcat & Hne & Hhash) Hd Hnow.
  unfold dy_add. destruct (dy_hash c) as [h|] eqn:Eh.
  - destruct (cp_Forall2_snoc_inv _ _ _ _ _ HF Hne) as (bs & b & dns' & dn & Ebs & Edns & HF' & Hb).
    subst dns. rewrite Ebs in HF.
    destruct (bytes_eqb h (fst (schema_sig d))).
    + rewrite Ebs, last_last, removelast_last.
      destruct (ba_add_ok n sk b dn d now Hn Hb Hd Hnow) as [b' [Hadd Hb']].
      rewrite Hadd. eexists. split; [reflexivity|].
      split; [exact Hmax|]. exists (dns' ++ [dn ++ [d]]). cbn [dy_chunks dy_hash].
      split; [apply cp_Forall2_snoc; assumption|].
      split; [rewrite cp_concat_snoc, <- Hcat, cp_concat_snoc, app_assoc; reflexivity|].
      split; [apply snoc_nonempty|].
      apply Forall_app in Hhash. apply Forall_app. split; [apply Hhash|].
      constructor; [apply snoc_nonempty|constructor].
    + rewrite Hmax.
      destruct (ba_add_ok n sk (ba_new n) [] d now Hn (ba_new_inv n sk ltac:(lia)) Hd Hnow) as [b' [Hadd Hb']].
      rewrite Hadd. eexists. split; [reflexivity|].
      split; [reflexivity|]. exists ((dns' ++ [dn]) ++ [[d]]). cbn [dy_chunks dy_hash].
      split; [rewrite Ebs; apply cp_Forall2_snoc; assumption|].
      split; [rewrite cp_concat_snoc, Hcat; reflexivity|].
      split; [apply snoc_nonempty|].
      apply Forall_app. split; [exact Hhash|]. constructor; [discriminate|constructor].
  - destruct dns as [|dn [|dn2 dns]]; try discriminate Hhash.
    destruct (cp_Forall2_single _ _ _ _ _ HF) as [b0 [Echunks Hb0]]. rewrite Echunks.
    destruct (ba_add_ok n sk b0 dn d now Hn Hb0 Hd Hnow) as [b' [Hadd Hb']].
    rewrite Hadd. eexists. split; [reflexivity|].
    split; [exact Hmax|]. exists [dn ++ [d]]. cbn [dy_chunks dy_hash].
    split; [constructor; [exact Hb'|constructor]|].
    split; [cbn [concat] in Hcat |- *; rewrite app_nil_r in Hcat |- *; rewrite Hcat; reflexivity|].
    split; [discriminate|]. constructor; [apply snoc_nonempty|constructor].
Qed.

Definition dresolve_step (acc : option (list doc)) (b : batch) : option (list doc) :=
  match acc, ba_resolve deflate b with Some a, Some x => Some (a ++ x) | _, _ => None end.

Lemma dy_resolve_eq : forall c, dy_resolve deflate c = fold_left dresolve_step (dy_chunks c) (Some []).
Proof. reflexivity. Qed.

Lemma dresolve_fold : forall n sk bs dns, Forall2 (batch_inv n sk) bs dns ->
  Forall (fun dn : list doc => dn <> []) dns ->
  forall acc, exists cds groups, fold_left dresolve_step bs (Some acc) = Some (acc ++ cds) /\
                                 Forall2 (is_chunk deflate n) cds groups /\ concat groups = concat dns.
Proof.
  intros n sk bs dns HF. induction HF as [|b dn bs dns Hb HF IH]; intros Hnes acc.
  - exists [], []. split; [rewrite app_nil_r; reflexivity|]. split; [constructor|reflexivity].
  - inversion Hnes as [|x y Hne Hnes']; subst.
    destruct (ba_resolve_inv n sk b dn Hb Hne) as (cds1 & gs1 & Hres & Hck1 & Hcat1).
    destruct (IH Hnes' (acc ++ cds1)) as (cds & gs & Hfold & Hck & Hcat).
    exists (cds1 ++ cds), (gs1 ++ gs). split; [|split].
    + cbn [fold_left]. unfold dresolve_step at 2. rewrite Hres, Hfold, <- app_assoc. reflexivity.
    + apply Forall2_app; assumption.
    + rewrite concat_app, Hcat1, Hcat. reflexivity.
Qed.

Definition dinfo_step : Z * Z -> batch -> Z * Z :=
  fun '(m, s) b => let '(m', s') := ba_info b in (m + m', s + s').

Lemma dy_info_eq : forall c, dy_info c = fold_left dinfo_step (dy_chunks c) (0, 0).
Proof. reflexivity. Qed.

Lemma dinfo_fold : forall n sk bs dns, Forall2 (batch_inv n sk) bs dns -> forall m s,
  snd (fold_left dinfo_step bs (m, s)) = s + Z.of_nat (length (concat dns)).
Proof.
  intros n sk bs dns HF. induction HF as [|b dn bs dns Hb HF IH]; intros m s.
  - cbn [fold_left snd concat length]. lia.
  - cbn [fold_left]. unfold dinfo_step at 2. pose proof (ba_info_inv _ _ _ _ Hb) as Hi.
    destruct (ba_info b) as [m' s']. cbn [snd] in Hi. rewrite IH. cbn [concat].
    rewrite app_length. lia.
Qed.

Lemma dy_info_inv : forall n sk c done, dyn_inv n sk c done -> snd (dy_info c) = Z.of_nat (length done).
Proof.
  intros n sk c done (_ & dns & HF & Hcat & _). rewrite dy_info_eq, (dinfo_fold n sk _ _ HF), Hcat. lia.
Qed.

Lemma dy_resolve_inv : forall n sk c done, dyn_inv n sk c done -> done <> [] ->
  exists cds groups, dy_resolve deflate c = Some cds /\ Forall2 (is_chunk deflate n) cds groups /\
                     concat groups = done.
Proof.
  intros n sk c done (_ & dns & HF & Hcat & _ & Hhash) Hne.
  assert (Hnes : Forall (fun dn : list doc => dn <> []) dns).
  { destruct (dy_hash c); [exact Hhash|].
    destruct dns as [|dn [|dn2 dns]]; try discriminate Hhash.
    cbn [concat] in Hcat. rewrite app_nil_r in Hcat. subst dn. constructor; [exact Hne|constructor]. }
  destruct (dresolve_fold n sk _ _ HF Hnes []) as (cds & groups & Hfold & Hcds & Hcat').
  exists cds, groups. rewrite dy_resolve_eq, Hfold. split; [reflexivity|]. split; [exact Hcds|congruence].
Qed.

(* ------------------------------------------------------------------ all kinds *)
Definition kind_inv (k : kind) (n : Z) (sk : doc) (c : coll) (w : writer) (done : list doc) : Prop :=
  match k, c with
  | KBase, CBase b => w = w0 /\ bc_holds n sk b done
  | KBatch, CBatch b => w = w0 /\ batch_inv n sk b done
  | KDyn, CDyn x => w = w0 /\ dyn_inv n sk x done
  | KStream, CStream s => stream_inv n sk s w done /\ (done <> [] -> 0 < sc_count s)
  | KSDyn, CSDyn c => stream_inv n sk (sd_s c) w done /\ (done <> [] -> 0 < sc_count (sd_s c))
  | _, _ => False
  end.

Lemma stream_new_inv : forall n sk, 0 <= n -> stream_inv n sk (mkScoll n 0 (IB (bc_new n))) w0 [].
Proof.
  intros n sk Hn. exists (bc_new n), [], []. cbn [sc_inner sc_max sc_count length concat app].
  split; [reflexivity|]. split; [reflexivity|]. split; [reflexivity|].
  split; [apply bc_new_holds|]. split; [lia|]. split; [apply emits_w0|reflexivity].
Qed.

Lemma kind_init : forall k n sk, compressing k = true -> 1 <= n -> kind_inv k n sk (new_coll k n) w0 [].
Proof.
  intros k n sk Hk Hn. destruct k; try discriminate Hk; cbn [new_coll kind_inv].
  - split; [reflexivity|apply bc_new_holds].
  - split; [reflexivity|apply ba_new_inv; lia].
  - split; [reflexivity|apply dy_new_inv; lia].
  - split; [apply stream_new_inv; lia|congruence].
  - split; [apply stream_new_inv; lia|congruence].
Qed.

Lemma fits_prefix : forall k n (l r : list doc), fits k n (l ++ r) -> fits k n l.
Proof. intros k n l r H. destruct k; cbn [fits] in *; try exact I. rewrite app_length in H. lia. Qed.

Lemma kind_step : forall k n sk c w done d now, 1 <= n ->
  kind_inv k n sk c w done -> dcol sk d -> in_i64 now = true -> fits k n (done ++ [d]) ->
  exists c' w', c_add deflate c w d now = (c', w', ROk) /\ kind_inv k n sk c' w' (done ++ [d]).
Proof.
  intros k n sk c w done d now Hn Hinv Hd Hnow Hfits.
  destruct k; destruct c as [b|b|x|s|s|u]; cbn [kind_inv] in Hinv; try contradiction; cbn [c_add].
  - destruct Hinv as [Hw Hb]. cbn [fits] in Hfits. rewrite app_length in Hfits. cbn [length] in Hfits.
    destruct (bc_add_holds n sk b done d now Hb Hd Hnow) as [b' [Hadd Hb']]; [lia|].
    rewrite Hadd. eexists. eexists. split; [reflexivity|]. cbn [kind_inv]. split; assumption.
  - destruct Hinv as [Hw Hb].
    destruct (ba_add_ok n sk b done d now Hn Hb Hd Hnow) as [b' [Hadd Hb']].
    rewrite Hadd. eexists. eexists. split; [reflexivity|]. cbn [kind_inv]. split; assumption.
  - destruct Hinv as [Hw Hb].
    destruct (dy_add_ok n sk x done d now Hn Hb Hd Hnow) as [b' [Hadd Hb']].
    rewrite Hadd. eexists. eexists. split; [reflexivity|]. cbn [kind_inv]. split; assumption.
  - destruct Hinv as [Hs _].
    destruct (sc_add_ok n sk s w done d now Hn Hs Hd Hnow) as [s' [w' [Hadd [Hs' Hpos]]]].
    rewrite Hadd. eexists. eexists. split; [reflexivity|]. cbn [kind_inv]. split; [exact Hs'|intros _; exact Hpos].
  - destruct Hinv as [Hs _].
    destruct (sd_add_ok n sk s w done d now Hn Hs Hd Hnow) as [s' [w' [Hadd [Hs' Hpos]]]].
    rewrite Hadd. eexists. eexists. split; [reflexivity|]. cbn [kind_inv]. split; [exact Hs'|intros _; exact Hpos].
Qed.

Lemma length_pos : forall (l : list doc), l <> [] -> Z.of_nat (length l) <> 0.
Proof. intros [|a l] H; [congruence|]. cbn [length]. lia. Qed.

Lemma kind_flush : forall k n sk c w done,
  kind_inv k n sk c w done -> done <> [] -> fits k n done ->
  exists c' w' groups, c_flush deflate c w = (c', w', true) /\ emits n w' groups /\ concat groups = done.
Proof.
  intros k n sk c w done Hinv Hne Hfits.
  destruct k; destruct c as [b|b|x|s|s|u]; cbn [kind_inv] in Hinv; try contradiction; cbn [c_flush].
  - destruct Hinv as [Hw Hb]. subst w. destruct done as [|d0 ds]; [congruence|].
    cbn [fits length] in Hfits.
    destruct (bc_resolve_holds n sk b d0 ds Hb) as [cd [Hres Hck]]; [lia|].
    rewrite (flush_with_ok coll c_info (c_resolve deflate) c_reset (CBase b) w0 [cd]).
    + eexists. eexists. exists ([] ++ [d0 :: ds]). split; [reflexivity|].
      split; [apply emits_push; [apply emits_w0|exact Hck]|]. cbn [app concat]. rewrite app_nil_r. reflexivity.
    + cbn [c_info]. rewrite (bc_info_holds _ _ _ _ Hb). apply length_pos. exact Hne.
    + cbn [c_resolve]. rewrite Hres. reflexivity.
    + reflexivity.
  - destruct Hinv as [Hw Hb]. subst w.
    destruct (ba_resolve_inv n sk b done Hb Hne) as (cds & groups & Hres & Hck & Hcat).
    rewrite (flush_with_ok coll c_info (c_resolve deflate) c_reset (CBatch b) w0 cds).
    + eexists. eexists. exists ([] ++ groups). split; [reflexivity|].
      split; [apply emits_push_all; [apply emits_w0|exact Hck]|exact Hcat].
    + cbn [c_info]. rewrite (ba_info_inv _ _ _ _ Hb). apply length_pos. exact Hne.
    + cbn [c_resolve]. rewrite Hres. reflexivity.
    + reflexivity.
  - destruct Hinv as [Hw Hb]. subst w.
    destruct (dy_resolve_inv n sk x done Hb Hne) as (cds & groups & Hres & Hck & Hcat).
    rewrite (flush_with_ok coll c_info (c_resolve deflate) c_reset (CDyn x) w0 cds).
    + eexists. eexists. exists ([] ++ groups). split; [reflexivity|].
      split; [apply emits_push_all; [apply emits_w0|exact Hck]|exact Hcat].
    + cbn [c_info]. rewrite (dy_info_inv _ _ _ _ Hb). apply length_pos. exact Hne.
    + cbn [c_resolve]. rewrite Hres. reflexivity.
    + reflexivity.
  - destruct Hinv as [Hs Hpos].
    destruct (sc_flush_ok n sk s w done Hs (Hpos Hne)) as [cd [Hfl Hs']].
    rewrite Hfl. destruct Hs' as (b & groups & g & _ & _ & Hcnt & _ & _ & Hem & Hdone).
    eexists. eexists. exists groups. split; [reflexivity|]. split; [exact Hem|].
    unfold sc_reset in Hcnt. cbn [sc_count] in Hcnt. destruct g as [|a g]; [|cbn [length] in Hcnt; lia].
    rewrite app_nil_r in Hdone. exact Hdone.
  - destruct Hinv as [Hs Hpos].
    destruct (sd_flush_ok n sk s w done Hs (Hpos Hne)) as [cd [Hfl Hs']].
    rewrite Hfl. destruct Hs' as (b & groups & g & _ & _ & Hcnt & _ & _ & Hem & Hdone).
    eexists. eexists. exists groups. split; [reflexivity|]. split; [exact Hem|].
    unfold sc_reset in Hcnt. cbn [sc_count] in Hcnt. destruct g as [|a g]; [|cbn [length] in Hcnt; lia].
    rewrite app_nil_r in Hdone. exact Hdone.
Qed.

(* ------------------------------------------------------------------ histories *)
Lemma run_cons_add : forall c w d now ops c' w' r,
  c_add deflate c w d now = (c', w', r) ->
  run deflate (c, w) (OAdd d now :: ops) =
  (let '(st'', bs) := run deflate (c', w') ops in (st'', BAdd r :: bs)).
Proof. intros c w d now ops c' w' r H. cbn [run step]. rewrite H. reflexivity. Qed.

Lemma run_app : forall a b st,
  run deflate st (a ++ b) =
  (let '(st', o1) := run deflate st a in let '(st'', o2) := run deflate st' b in (st'', o1 ++ o2)).
Proof.
  induction a as [|o a IH]; intros b st.
  - cbn [app run]. destruct (run deflate st b) as [st'' o2]. reflexivity.
  - cbn [app run]. destruct (step deflate st o) as [st1 ob]. rewrite IH.
    destruct (run deflate st1 a) as [st' o1]. destruct (run deflate st' b) as [st'' o2]. reflexivity.
Qed.

Lemma run_adds : forall k n sk rest nows c w done, 1 <= n ->
  length nows = length rest -> Forall (fun t => in_i64 t = true) nows -> Forall (dcol sk) rest ->
  fits k n (done ++ rest) -> kind_inv k n sk c w done ->
  exists c' w', run deflate (c, w) (add_ops rest nows) = ((c', w'), map (fun _ => BAdd ROk) rest) /\
                kind_inv k n sk c' w' (done ++ rest).
Proof.
  intros k n sk rest. induction rest as [|d rest IH]; intros nows c w done Hn Hlen Hnows Hrest Hfits Hinv.
  - exists c, w. destruct nows; [|discriminate Hlen]. rewrite app_nil_r. split; [reflexivity|exact Hinv].
  - destruct nows as [|now nows]; [discriminate Hlen|]. cbn [length] in Hlen. injection Hlen as Hlen.
    inversion Hnows as [|x y Hnow Hnows']; subst. inversion Hrest as [|x y Hd Hrest']; subst.
    assert (Hfits1 : fits k n (done ++ [d])).
    { apply (fits_prefix k n (done ++ [d]) rest). rewrite <- app_assoc. exact Hfits. }
    destruct (kind_step k n sk c w done d now Hn Hinv Hd Hnow Hfits1) as [c1 [w1 [Hadd Hinv1]]].
    destruct (IH nows c1 w1 (done ++ [d]) Hn Hlen Hnows' Hrest') as [c' [w' [Hrun Hinv']]];
      [rewrite <- app_assoc; exact Hfits|exact Hinv1|].
    exists c', w'. unfold add_ops. cbn [combine map fst snd]. fold (add_ops rest nows).
    rewrite (run_cons_add _ _ _ _ _ _ _ _ Hadd), Hrun. cbn [map].
    split; [reflexivity|]. rewrite <- app_assoc in Hinv'. exact Hinv'.
Qed.

Theorem emit_groups : forall k n sk docs nows,
  compressing k = true -> 1 <= n -> docs <> [] -> length nows = length docs ->
  Forall (fun t => in_i64 t = true) nows -> Forall (dcol sk) docs -> fits k n docs ->
  exists c w groups,
    emit deflate k n docs nows = ((c, w), map (fun _ => BAdd ROk) docs ++ [BFlush true]) /\
    emits n w groups /\ concat groups = docs.
Proof.
  intros k n sk docs nows Hk Hn Hne Hlen Hnows Hdocs Hfits.
  destruct (run_adds k n sk docs nows (new_coll k n) w0 [] Hn Hlen Hnows Hdocs Hfits (kind_init k n sk Hk Hn))
    as [c1 [w1 [Hrun Hinv]]].
  cbn [app] in Hinv.
  destruct (kind_flush k n sk c1 w1 docs Hinv Hne Hfits) as (c & w & groups & Hfl & Hem & Hcat).
  exists c, w, groups. split; [|split; assumption].
  unfold emit. fold w0. rewrite run_app, Hrun. cbn [run step]. rewrite Hfl. reflexivity.
Qed.

End Coll.

(* ------------------------------------------------------------------ the writer's bytes *)
Lemma enc_stream_app : forall a b, enc_stream (a ++ b) = enc_stream a ++ enc_stream b.
Proof. intros a b. unfold enc_stream. rewrite map_app, concat_app. reflexivity. Qed.

Lemma log_bytes_emitted : forall w,
  Forall (fun r => exists ds, r = WFull (OFtdc ds)) (w_log w) -> log_bytes w = enc_stream (emitted w).
Proof.
  intros w. unfold log_bytes, emitted. generalize (w_log w) as log.
  induction log as [|r log IH]; intros HF; [reflexivity|].
  inversion HF as [|x y [ds Hr] HF']; subst.
  cbn [map concat flat_map wrec_bytes outp_bytes]. rewrite enc_stream_app, (IH HF'). reflexivity.
Qed.

(* ------------------------------------------------------------------ C01 *)
Lemma hd_in : forall (docs : list doc), docs <> [] -> In (hd [] docs) docs.
Proof. intros [|d r] H; [congruence|]. left. reflexivity. Qed.

Theorem codec_roundtrip : forall (deflate : bytes -> bytes) (inflate : bytes -> option bytes),
  (forall p, inflate (deflate p) = Some p) ->
  forall k n docs nows,
  compressing k = true -> 1 <= n < 2 ^ 31 ->
  (docs <> [] /\ length nows = length docs /\ Forall (fun t => in_i64 t = true) nows /\
   same_schema docs /\
   Forall (fun d => doc_ok d = true /\ doc_leaves_ok d = true /\ Wf.small (enc_doc d)) docs /\
   (N.of_nat (length (flatten_doc (hd [] docs))) < 2 ^ 32)%N) ->
  fits k n docs ->
  Forall (fun d => doc_has_ts_seconds d = false) docs ->
  let res := emit deflate k n docs nows in
  snd res = map (fun _ => BAdd ROk) docs ++ [BFlush true] /\
  read_structured inflate (emitted (snd (fst res))) = (Some (map strip_doc docs), None).
Proof.
  intros deflate inflate Hid k n docs nows Hk Hn (Hne & Hlen & Hnows & Hss & Hall & Hm) Hfits Hts res.
  subst res.
  set (sk := skeleton_doc (hd [] docs)).
  assert (Hsk : forall d, In d docs -> skeleton_doc d = sk).
  { intros d Hd. apply Hss; [exact Hd|apply hd_in; exact Hne]. }
  assert (Hcol : Forall (dcol sk) docs).
  { apply Forall_forall. intros d Hd. rewrite Forall_forall in Hall. split; [apply Hsk; exact Hd|apply (Hall d Hd)]. }
  destruct (emit_groups deflate k n sk docs nows Hk ltac:(lia) Hne Hlen Hnows Hcol Hfits)
    as (c & w & groups & Hemit & [_ Hem] & Hcat).
  rewrite Hemit. cbn [fst snd]. split; [reflexivity|].
  rewrite <- Hcat. apply (read_structured_groups deflate inflate Hid n sk); [lia|exact Hem|].
  rewrite Hcat. apply Forall_forall. intros d Hd.
  rewrite Forall_forall in Hall, Hts. destruct (Hall d Hd) as (Hok & Hlv & Hsm).
  split; [apply Hsk; exact Hd|]. split; [exact Hok|]. split; [exact Hlv|]. split; [exact Hsm|].
  split; [apply Hts; exact Hd|].
  rewrite (same_skeleton_length d (hd [] docs)); [exact Hm|apply Hsk; exact Hd].
Qed.

Theorem codec_bytes : forall (deflate : bytes -> bytes),
  (forall p, wf_bytes (deflate p)) ->
  forall k n docs nows,
  compressing k = true -> 1 <= n < 2 ^ 31 ->
  (docs <> [] /\ length nows = length docs /\ Forall (fun t => in_i64 t = true) nows /\
   same_schema docs /\
   Forall (fun d => doc_ok d = true /\ doc_leaves_ok d = true /\ Wf.small (enc_doc d)) docs /\
   (N.of_nat (length (flatten_doc (hd [] docs))) < 2 ^ 32)%N) ->
  fits k n docs ->
  let w := snd (fst (emit deflate k n docs nows)) in
  Forall (fun d => doc_ok d = true) (emitted w) /\
  (Forall (fun d => Wf.small (enc_doc d)) (emitted w) -> dec_docs (log_bytes w) = Some (emitted w)).
Proof.
  intros deflate Hwf k n docs nows Hk Hn (Hne & Hlen & Hnows & Hss & Hall & Hm) Hfits w0'.
  subst w0'.
  set (sk := skeleton_doc (hd [] docs)).
  assert (Hcol : Forall (dcol sk) docs).
  { apply Forall_forall. intros d Hd. rewrite Forall_forall in Hall.
    split; [apply Hss; [exact Hd|apply hd_in; exact Hne]|apply (Hall d Hd)]. }
  destruct (emit_groups deflate k n sk docs nows Hk ltac:(lia) Hne Hlen Hnows Hcol Hfits)
    as (c & w & groups & Hemit & [[_ Hlog] Hem] & Hcat).
  rewrite Hemit. cbn [fst snd].
  assert (Hoks : Forall (fun d => doc_ok d = true) (emitted w)).
  { clear - Hem Hwf. induction Hem as [|cd g cds gs Hcd _ IH]; constructor; [|exact IH].
    apply (is_chunk_doc_ok deflate Hwf n cd g Hcd). }
  split; [exact Hoks|]. intros Hsmall.
  rewrite (log_bytes_emitted w Hlog). unfold enc_stream. apply dec_docs_concat.
  apply Forall_forall. intros d Hd. rewrite Forall_forall in Hoks, Hsmall.
  split; [apply Hoks; exact Hd|apply (Hsmall d Hd)].
Qed.

Theorem codec_timestamp_refuted :
  exists docs nows,
    let deflate := (fun p : bytes => 1%N :: p) in
    let inflate := (fun z : bytes => match z with b :: p => if (b =? 1)%N then Some p else None | [] => None end) in
    (docs <> [] /\ length nows = length docs /\ Forall (fun t => in_i64 t = true) nows /\
     same_schema docs /\
     Forall (fun d => doc_ok d = true /\ doc_leaves_ok d = true /\ Wf.small (enc_doc d)) docs /\
     (N.of_nat (length (flatten_doc (hd [] docs))) < 2 ^ 32)%N) /\
    fst (read_structured inflate (emitted (snd (fst (emit deflate KBase 3 docs nows))))) <> Some (map strip_doc docs).
Proof.
  exists [[([116]%N, VTimestamp 5 7)]], [0]. cbv zeta. split.
  - split; [discriminate|]. split; [reflexivity|]. split; [repeat constructor|].
    split. { intros a b [<-|[]] [<-|[]]. reflexivity. }
    split. { constructor; [|constructor]. split; [reflexivity|]. split; [reflexivity|]. unfold Wf.small. vm_compute. reflexivity. }
    vm_compute. reflexivity.
  - vm_compute. intro H. discriminate H.
Qed.

Theorem codec_example :
  let d1 := [([97]%N, VInt64 (2 ^ 63 - 1)); ([98]%N, VDoc [([99]%N, VArr [VBool true; VString [120]%N; VDouble (- 2 ^ 63)])])] in
  let d2 := [([97]%N, VInt64 (- 2 ^ 63)); ([98]%N, VDoc [([99]%N, VArr [VBool false; VString [121]%N; VDouble 0])])] in
  ([d1; d2] <> [] /\ length [0; 0] = length [d1; d2] /\ Forall (fun t => in_i64 t = true) [0; 0] /\
   same_schema [d1; d2] /\
   Forall (fun d => doc_ok d = true /\ doc_leaves_ok d = true /\ Wf.small (enc_doc d)) [d1; d2] /\
   (N.of_nat (length (flatten_doc (hd [] [d1; d2]))) < 2 ^ 32)%N) /\
  Forall (fun d => doc_has_ts_seconds d = false) [d1; d2].
Proof.
  intros d1 d2. split.
  - split; [discriminate|]. split; [reflexivity|]. split; [repeat constructor|].
    split. { intros a b [<-|[<-|[]]] [<-|[<-|[]]]; reflexivity. }
    split. { repeat constructor; try (unfold Wf.small; vm_compute; reflexivity). }
    vm_compute. reflexivity.
  - repeat constructor.
Qed.

Print Assumptions codec_roundtrip.
Print Assumptions codec_bytes.
Print Assumptions codec_timestamp_refuted.
Print Assumptions codec_example.
