(* Oracle soundness for C03 (encode direction), samples as documents: the executable
   oracle c03_encode_docs_ok of Spec/FtdcSpec.v answers true on what the model of the
   library's collectors emits.  Core: spec_fill depends on the skeleton of the
   reference document only, once there are enough values. *)
From Coq Require Import ZArith NArith List Bool Lia Arith.
From FV.Model Require Import Bytes Bson Metrics Codec Collector Wf RoundTrip.
From FV.Spec Require Import FtdcSpec.
From FV.Proofs Require Import MetricsProofs CodecProofs SpecProofs OracleSoundC03.
Import ListNotations.
Open Scope Z_scope.

(* ------------------------------------------------------------------ explicit copies of the loops of spec_fill *)
Fixpoint sfill_doc (l : doc) (vs : list Z) : doc * list Z :=
  match l with
  | [] => ([], vs)
  | (k, x) :: r => let '(ox, vs1) := spec_fill x vs in
                   let '(rs, vs2) := sfill_doc r vs1 in
                   (match ox with Some y => (k, y) :: rs | None => rs end, vs2)
  end.
Fixpoint sfill_arr (l : list value) (vs : list Z) : list value * list Z :=
  match l with
  | [] => ([], vs)
  | x :: r => let '(ox, vs1) := spec_fill x vs in
              let '(rs, vs2) := sfill_arr r vs1 in
              (match ox with Some y => y :: rs | None => rs end, vs2)
  end.

Lemma spec_fill_VDoc : forall d vals,
  spec_fill (VDoc d) vals = (Some (VDoc (fst (sfill_doc d vals))), snd (sfill_doc d vals)).
Proof.
  intros d vals. cbn [spec_fill].
  match goal with |- (let '(_, _) := ?f d vals in _) = _ => change (f d vals) with (sfill_doc d vals) end.
  destruct (sfill_doc d vals); reflexivity.
Qed.
Lemma spec_fill_VArr : forall a vals,
  spec_fill (VArr a) vals = (Some (VArr (fst (sfill_arr a vals))), snd (sfill_arr a vals)).
Proof.
  intros a vals. cbn [spec_fill].
  match goal with |- (let '(_, _) := ?f a vals in _) = _ => change (f a vals) with (sfill_arr a vals) end.
  destruct (sfill_arr a vals); reflexivity.
Qed.

Lemma spec_fill_doc_sfill : forall d vals, spec_fill_doc d vals = fst (sfill_doc d vals).
Proof. intros d vals. unfold spec_fill_doc. rewrite spec_fill_VDoc. reflexivity. Qed.

(* ------------------------------------------------------------------ the number of metrics depends on the skeleton only *)
Definition cnt_P (v : value) : Prop :=
  length (spec_metrics v) = match skeleton v with Some s => length (spec_metrics s) | None => O end.

Lemma cnt_doc_F : forall d, Forall (fun kv => cnt_P (snd kv)) d ->
  length (spec_metrics_doc d) = length (spec_metrics_doc (skeleton_doc d)).
Proof.
  intros d HF. induction HF as [|[k x] r Hx HF IH]; [reflexivity|].
  cbn [snd] in Hx. unfold cnt_P in Hx. cbn [spec_metrics_doc skeleton_doc]. rewrite app_length, Hx, IH.
  destruct (skeleton x) as [s|]; [cbn [spec_metrics_doc]; rewrite app_length|]; reflexivity.
Qed.
Lemma cnt_arr_F : forall a, Forall cnt_P a ->
  length (spec_metrics_arr a) = length (spec_metrics_arr (skeleton_arr a)).
Proof.
  intros a HF. induction HF as [|x r Hx HF IH]; [reflexivity|].
  unfold cnt_P in Hx. cbn [spec_metrics_arr skeleton_arr]. rewrite app_length, Hx, IH.
  destruct (skeleton x) as [s|]; [cbn [spec_metrics_arr]; rewrite app_length|]; reflexivity.
Qed.
Lemma cnt_value : forall v, cnt_P v.
Proof.
  induction v using value_ind'; unfold cnt_P; try reflexivity.
  - rewrite skeleton_VDoc, !spec_metrics_VDoc. apply cnt_doc_F; assumption.
  - rewrite skeleton_VArr, !spec_metrics_VArr. apply cnt_arr_F; assumption.
Qed.
Lemma cnt_doc : forall d, length (spec_metrics_doc d) = length (spec_metrics_doc (skeleton_doc d)).
Proof. intro d. apply cnt_doc_F. apply Forall_forall. intros kv _. apply cnt_value. Qed.

(* ------------------------------------------------------------------ with enough values, filling depends on the skeleton only *)
Definition fill_P (v : value) : Prop :=
  forall vals, (length (spec_metrics v) <= length vals)%nat ->
    spec_fill v vals = match skeleton v with Some s => spec_fill s vals | None => (None, vals) end /\
    length vals = (length (spec_metrics v) + length (snd (spec_fill v vals)))%nat.

Lemma fill_doc_F : forall d, Forall (fun kv => fill_P (snd kv)) d ->
  forall vals, (length (spec_metrics_doc d) <= length vals)%nat ->
    sfill_doc d vals = sfill_doc (skeleton_doc d) vals /\
    length vals = (length (spec_metrics_doc d) + length (snd (sfill_doc d vals)))%nat.
Proof.
  intros d HF. induction HF as [|[k x] r Hx HF IH]; intros vals Hlen.
  - cbn. split; reflexivity.
  - cbn [snd] in Hx. cbn [spec_metrics_doc] in Hlen |- *. rewrite app_length in Hlen |- *.
    destruct (Hx vals ltac:(lia)) as [E1 L1]. cbn [sfill_doc skeleton_doc].
    destruct (skeleton x) as [s|].
    + cbn [sfill_doc]. rewrite <- E1. destruct (spec_fill x vals) as [ox vs1]. cbn [snd] in L1.
      destruct (IH vs1 ltac:(lia)) as [E2 L2]. rewrite <- E2.
      destruct (sfill_doc r vs1) as [rs vs2]. cbn [snd] in L2 |- *. split; [reflexivity|lia].
    + rewrite E1 in L1 |- *. cbn [snd] in L1.
      destruct (IH vals ltac:(lia)) as [E2 L2]. rewrite <- E2.
      destruct (sfill_doc r vals) as [rs vs2]. cbn [snd] in L2 |- *. split; [reflexivity|lia].
Qed.
Lemma fill_arr_F : forall a, Forall fill_P a ->
  forall vals, (length (spec_metrics_arr a) <= length vals)%nat ->
    sfill_arr a vals = sfill_arr (skeleton_arr a) vals /\
    length vals = (length (spec_metrics_arr a) + length (snd (sfill_arr a vals)))%nat.
Proof.
  intros a HF. induction HF as [|x r Hx HF IH]; intros vals Hlen.
  - cbn. split; reflexivity.
  - cbn [spec_metrics_arr] in Hlen |- *. rewrite app_length in Hlen |- *.
    destruct (Hx vals ltac:(lia)) as [E1 L1]. cbn [sfill_arr skeleton_arr].
    destruct (skeleton x) as [s|].
    + cbn [sfill_arr]. rewrite <- E1. destruct (spec_fill x vals) as [ox vs1]. cbn [snd] in L1.
      destruct (IH vs1 ltac:(lia)) as [E2 L2]. rewrite <- E2.
      destruct (sfill_arr r vs1) as [rs vs2]. cbn [snd] in L2 |- *. split; [reflexivity|lia].
    + rewrite E1 in L1 |- *. cbn [snd] in L1.
      destruct (IH vals ltac:(lia)) as [E2 L2]. rewrite <- E2.
      destruct (sfill_arr r vals) as [rs vs2]. cbn [snd] in L2 |- *. split; [reflexivity|lia].
Qed.

Lemma fill_value : forall v, fill_P v.
Proof.
  induction v using value_ind'; unfold fill_P; intros vals Hlen;
    try (cbn; split; [reflexivity|lia]);
    try (cbn in Hlen; destruct vals as [|z vals]; [cbn in Hlen; lia|]; cbn; split; [reflexivity|lia]).
  - rewrite skeleton_VDoc, !spec_fill_VDoc, !spec_metrics_VDoc in *.
    destruct (fill_doc_F d H vals Hlen) as [E L]. rewrite <- E. cbn [snd]. split; [reflexivity|exact L].
  - rewrite skeleton_VArr, !spec_fill_VArr, !spec_metrics_VArr in *.
    destruct (fill_arr_F a H vals Hlen) as [E L]. rewrite <- E. cbn [snd]. split; [reflexivity|exact L].
  - cbn in Hlen. destruct vals as [|z [|z' vals]]; cbn in Hlen; try lia. cbn. split; [reflexivity|lia].
Qed.

Lemma sfill_doc_skeleton : forall d vals, (length (spec_metrics_doc d) <= length vals)%nat ->
  sfill_doc d vals = sfill_doc (skeleton_doc d) vals.
Proof.
  intros d vals Hlen. apply fill_doc_F; [|exact Hlen]. apply Forall_forall. intros kv _. apply fill_value.
Qed.

(* the key lemma: two documents of one schema are filled alike *)
Lemma spec_fill_doc_same_skeleton : forall r d vals,
  skeleton_doc r = skeleton_doc d -> (length (spec_metrics_doc d) <= length vals)%nat ->
  spec_fill_doc r vals = spec_fill_doc d vals.
Proof.
  intros r d vals Hs Hlen. rewrite !spec_fill_doc_sfill.
  rewrite (sfill_doc_skeleton d vals Hlen).
  rewrite (sfill_doc_skeleton r vals) by (rewrite (cnt_doc r), Hs, <- (cnt_doc d); exact Hlen).
  rewrite Hs. reflexivity.
Qed.

Lemma fill_self_same_skeleton : forall r d, skeleton_doc r = skeleton_doc d ->
  spec_fill_doc r (spec_metrics_doc d) = self_fill d.
Proof. intros r d Hs. unfold self_fill. apply spec_fill_doc_same_skeleton; [exact Hs|apply Nat.le_refl]. Qed.

(* the statement in its general form, on values *)
Lemma spec_fill_same_skeleton : forall x y, skeleton x = skeleton y ->
  forall vs, (length (spec_metrics x) <= length vs)%nat -> spec_fill x vs = spec_fill y vs.
Proof.
  intros x y Hs vs Hlen.
  assert (Hlen' : (length (spec_metrics y) <= length vs)%nat).
  { rewrite (cnt_value y), <- Hs, <- (cnt_value x). exact Hlen. }
  rewrite (proj1 (fill_value x vs Hlen)), (proj1 (fill_value y vs Hlen')), Hs. reflexivity.
Qed.

(* what the new check adds: the second input filed under a reference document with another
   key name and the same number of metrics passes c03_encode_ok and fails c03_encode_docs_ok *)
Example docs_oracle_sensitive :
  let d1 := [([97]%N, VInt64 1)] in
  let d2 := [([98]%N, VInt64 2)] in
  let ds := [x_canonical_chunk 0 d1 [spec_metrics_doc d2]] in
  c03_encode_ok [d1; d2] ds = true /\ c03_encode_docs_ok [d1; d2] ds = false /\
  c03_encode_docs_ok [d1; d1] [x_canonical_chunk 0 d1 [spec_metrics_doc d1]] = true.
Proof. vm_compute. repeat split. Qed.

(* ------------------------------------------------------------------ the samples of the canonical partition, as documents *)
Lemma group_docs : forall g, same_schema g -> table_docs (group_table g) = map self_fill g.
Proof.
  intros g Hs. unfold table_docs, group_table. cbn [fst snd]. rewrite map_map.
  apply map_ext_in. intros d Hd. apply fill_self_same_skeleton.
  destruct g as [|d0 g']; [destruct Hd|]. cbn [hd]. apply Hs; [left; reflexivity|exact Hd].
Qed.

Lemma canon_docs : forall groups, same_schema (concat groups) ->
  concat (map table_docs (map group_table groups)) = map self_fill (concat groups).
Proof.
  induction groups as [|g r IH]; intro Hs; [reflexivity|].
  cbn [map concat] in *. rewrite map_app. f_equal.
  - apply group_docs. intros a b Ha Hb. apply Hs; apply in_or_app; left; assumption.
  - apply IH. intros a b Ha Hb. apply Hs; apply in_or_app; right; assumption.
Qed.

Lemma c03_oracle_docs_sound : forall k n docs nows,
  compressing k = true -> 1 <= n < 2 ^ 31 ->
  (docs <> [] /\ length nows = length docs /\ Forall (fun t => in_i64 t = true) nows /\
   same_schema docs /\
   Forall (fun d => doc_ok d = true /\ doc_leaves_ok d = true /\ small (enc_doc d)) docs /\
   (N.of_nat (length (flatten_doc (hd [] docs))) < 2 ^ 32)%N) ->
  fits k n docs ->
  let ds := emitted (snd (fst (emit triv_deflate k n docs nows))) in
  exists groups, concat groups = docs /\ Forall2 (canon_of triv_deflate) ds groups /\
    (Forall group_small groups -> c03_encode_docs_ok docs ds = true).
Proof.
  intros k n docs nows Hk Hn Hin Hfit ds.
  destruct (c03_oracle_sound k n docs nows Hk Hn Hin Hfit) as (groups & Hcat & HF2 & Hdec).
  fold ds in HF2, Hdec.
  exists groups. split; [exact Hcat|]. split; [exact HF2|]. intro Hsm.
  destruct (Hdec Hsm) as (Hd & _). unfold c03_encode_docs_ok. rewrite Hd.
  rewrite canon_docs by (rewrite Hcat; apply Hin). rewrite Hcat. apply spec_bytes_eqb_refl.
Qed.

(* the statement of the key lemma on concrete documents: the reference document has other
   values, strings and a non-metric leaf of another content; the sample is short by one
   value in the last line, where the documents are NOT filled alike *)
Example fill_example :
  let r := [([97]%N, VInt64 5); ([115]%N, VString [120]%N); ([98]%N, VDoc [([99]%N, VArr [VBool true; VNull; VTimestamp 1 2; VDouble 7])])] in
  let d := [([97]%N, VInt64 9); ([115]%N, VString [121; 122]%N); ([98]%N, VDoc [([99]%N, VArr [VBool false; VNull; VTimestamp 3 4; VDouble 8])])] in
  skeleton_doc r = skeleton_doc d /\
  spec_fill_doc r (spec_metrics_doc d) = [([97]%N, VInt64 9); ([98]%N, VDoc [([99]%N, VArr [VBool false; VTimestamp 3 4; VDouble 8])])] /\
  self_fill d = spec_fill_doc r (spec_metrics_doc d) /\
  spec_fill_doc r [1; 1; 1; 1] <> spec_fill_doc d [1; 1; 1; 1].
Proof. cbv zeta. repeat split. vm_compute. discriminate. Qed.
