(* Oracle soundness for C19: the executable oracles [c19_ok_json] and [c19_ok_runtime]
   (Model/JsonPipeOk.v) accept the observation the model itself yields, for every input and
   every schedule covered by the theorems of Props/C19.v.

   The observations are built the way ocaml/c19_run.ml builds them from the harness's output:
   - JSON: one entry per RAW line of the input (the harness's own split at \n; [split_lines]):
     its raw length and the document the Extended JSON library makes of the line without a
     trailing \r - None when the line is as long as the token limit or the library refuses;
     whether the call returned a nil error; what the reader decodes from the returned bytes;
   - runtime: per file, whether it decodes and the id of every sample in it; the number of
     samples generated. *)
From Coq Require Import ZArith NArith List Bool Lia.
From FV.Model Require Import Bytes Bson Metrics Codec Collector Wf RoundTrip CollectorOk Instance JsonPipe JsonPipeOk.
From FV.Proofs Require Import CollectorBase JsonPipeProofs.
Import ListNotations.
Open Scope Z_scope.

(* ------------------------------------------------------------------ observations *)
Definition obs_line (parse : bytes -> pres) (limit : N) (raw : bytes) : N * option doc :=
  (N.of_nat (length raw),
   if (limit <=? N.of_nat (length raw))%N then None
   else match parse (drop_cr raw) with PDoc d => Some d | PBad => None end).

Definition obs_lines (parse : bytes -> pres) (limit : N) (inp : bytes) : list (N * option doc) :=
  map (obs_line parse limit) (split_lines inp).

Definition obs_res_ok (r : jres) : bool := match r with JOk _ => true | JErr _ => false end.

Definition obs_decoded (inflate : bytes -> option bytes) (r : jres) : list doc :=
  match r with
  | JOk out => match decode_ftdc inflate None out with Some dec => dc_docs dec | None => [] end
  | JErr _ => []
  end.

Definition obs_files (inflate : bytes -> option bytes) (s : rstate) : list (bool * list (option Z)) :=
  map (fun w => match decode_ftdc inflate None (emitted w) with
                | Some dec => (true, map sample_id (dc_docs dec))
                | None => (false, [None])
                end) (r_files s).

(* ------------------------------------------------------------------ JSON *)
Lemma obs_lines_good : forall parse limit raws docs,
  Forall (fun x => (N.of_nat (length x) < limit)%N) raws ->
  Forall2 (fun l d => parse l = PDoc d) (map drop_cr raws) docs ->
  existsb (line_bad limit) (map (obs_line parse limit) raws) = false /\
  line_docs (map (obs_line parse limit) raws) = docs.
Proof.
  intros parse limit. induction raws as [|raw raws IH]; intros docs HF H2; cbn [map] in H2.
  - inversion H2; subst. split; reflexivity.
  - inversion H2 as [|l d ls ds Hp Hrest]; subst. inversion HF as [|x xs Hlt HF']; subst.
    destruct (IH ds HF' Hrest) as [Hbad Hdocs].
    cbn [map existsb]. unfold line_docs in *. cbn [flat_map].
    unfold obs_line at 1 3, line_bad at 1. cbn [fst snd].
    assert (El : (limit <=? N.of_nat (length raw))%N = false) by (apply N.leb_gt; exact Hlt).
    rewrite El, Hp. cbn [orb app]. split; [exact Hbad | f_equal; exact Hdocs].
Qed.

Section Json.
Variable deflate : bytes -> bytes.
Variable inflate : bytes -> option bytes.
Hypothesis inflate_deflate : forall p, inflate (deflate p) = Some p.

Lemma c19_json_oracle_sound : forall parse limit inp rerr ls e n evs s r,
  1 <= n < 2 ^ 31 ->
  scan limit inp rerr = (ls, e) -> docs_ok KDyn (parsed parse ls) ->
  let init := j_init true n (source parse false limit inp rerr) in
  j_run deflate init evs = Some s -> j_res s = Some r -> j_early deflate true true init evs = false ->
  c19_ok_json limit (obs_lines parse limit inp) rerr (obs_res_ok r) (obs_decoded inflate r) = true /\
  (forall out, r = JOk out -> decode_ftdc inflate None out <> None).
Proof.
  intros parse limit inp rerr ls e n evs s r Hn Hscan Hok init Hrun Hres Hearly.
  destruct (json_total_input deflate inflate inflate_deflate parse limit inp rerr ls e n evs s r
              Hn Hscan Hok Hrun Hres Hearly)
    as [(He & HF2 & out & dec & Hr & Hdec & Hdocs & _) | (_ & e' & Hr)].
  - subst e r. unfold scan in Hscan. pose proof (scan_raw_spec _ _ _ _ _ Hscan) as Hspec.
    cbn beta iota in Hspec. destruct Hspec as (Hls & Hlt & Hrerr).
    assert (Er : rerr = false).
    { destruct rerr; [|reflexivity]. destruct Hrerr as [_ Hx]. discriminate (Hx eq_refl). }
    subst ls. destruct (obs_lines_good parse limit _ _ Hlt HF2) as [Hbad Hld].
    split.
    + unfold c19_ok_json, obs_res_ok, obs_decoded, obs_lines. rewrite Hdec, Er, Hbad, Hld, Hdocs.
      cbn [negb andb]. apply cb_docs_eqb_refl.
    + intros out' E. injection E as <-. rewrite Hdec. discriminate.
  - subst r. split; [reflexivity|]. intros out E. discriminate E.
Qed.
End Json.

(* ------------------------------------------------------------------ runtime *)
Lemma zseq_length : forall n i, length (zseq i n) = n.
Proof. induction n as [|n IH]; intros i; cbn [zseq length]; [reflexivity | rewrite IH; reflexivity]. Qed.

Lemma ids_eqb_some : forall l, ids_eqb (map Some l) l = true.
Proof. induction l as [|x l IH]; cbn [map ids_eqb]; [reflexivity | rewrite Z.eqb_refl, IH; reflexivity]. Qed.

Section Runtime.
Variable deflate : bytes -> bytes.
Variable inflate : bytes -> option bytes.
Hypothesis inflate_deflate : forall p, inflate (deflate p) = Some p.

Lemma obs_files_holds : forall n ws (fdocs : list (list doc)),
  Forall2 (file_holds inflate n) ws fdocs ->
  map (fun w => match decode_ftdc inflate None (emitted w) with
                | Some dec => (true, map sample_id (dc_docs dec))
                | None => (false, [None])
                end) ws
  = map (fun docs => (true, map (fun d => sample_id (strip_doc d)) docs)) fdocs.
Proof.
  intros n ws fdocs H. induction H as [|w docs ws fdocs Hw H IH]; [reflexivity|].
  cbn [map]. rewrite IH. destruct Hw as (dec & Hdec & Hdocs & _). rewrite Hdec, Hdocs, map_map. reflexivity.
Qed.

Lemma flat_ids : forall (fdocs : list (list doc)),
  flat_map snd (map (fun docs => (true, map (fun d => sample_id (strip_doc d)) docs)) fdocs)
  = map (fun d => sample_id (strip_doc d)) (concat fdocs).
Proof.
  induction fdocs as [|docs fdocs IH]; [reflexivity|].
  cbn [map flat_map concat snd]. rewrite map_app, IH. reflexivity.
Qed.

Lemma all_decoded : forall (fdocs : list (list doc)),
  forallb fst (map (fun docs => (true, map (fun d => sample_id (strip_doc d)) docs)) fdocs) = true.
Proof. induction fdocs as [|docs fdocs IH]; [reflexivity | cbn [map forallb fst andb]; exact IH]. Qed.

Lemma c19_runtime_oracle_sound : forall gen,
  (forall i t, doc_wf (gen i t)) ->
  (forall i t j u, skeleton_doc (gen i t) = skeleton_doc (gen j u)) ->
  (forall i t, 0 <= i < 2 ^ 63 -> sample_id (strip_doc (gen i t)) = Some i) ->
  forall o evs s,
  rt_valid o = true -> ro_samples o < 2 ^ 31 ->
  Z.of_nat (length (collect_times evs)) <= 2 ^ 63 ->
  r_run deflate gen (r_init o) evs = Some s ->
  r_res s <> None ->
  r_res s = Some RDone /\
  c19_ok_runtime (obs_files inflate s) (Some (r_id s)) = true /\
  c19_ok_runtime (obs_files inflate s) None = true.
Proof.
  intros gen Hwf Hschema Hids o evs s Hvalid Hmax Hlen Hrun Hret.
  destruct (runtime_files deflate inflate inflate_deflate gen Hwf Hschema o evs s Hvalid Hmax Hrun)
    as (Hid & Hres & fdocs & pending & Hfiles & Hcat & _ & Hdone).
  assert (Hd : r_res s = Some RDone) by (destruct Hres as [Hx | Hx]; [contradiction | exact Hx]).
  split; [exact Hd|].
  destruct (Hdone Hd) as [-> _]. rewrite app_nil_r in Hcat.
  unfold c19_ok_runtime, obs_files.
  rewrite (obs_files_holds _ _ _ Hfiles), flat_ids, all_decoded, Hcat.
  rewrite (sample_ids_gens0 gen Hids _ Hlen).
  rewrite map_length, zseq_length, ids_eqb_some, Hid, Z.eqb_refl. split; reflexivity.
Qed.
End Runtime.
