(* RecordValues(v, k) is k times RecordValue(v): what the correspondence harness relies on when it records a run of
   equal neighbours with one RecordValues call (harness/c12.go recordRuns). *)
From Coq Require Import ZArith List Bool Lia.
From FV.Model Require Import Hdr.
Open Scope Z_scope.

Fixpoint record_times (h : hist) (v : Z) (k : nat) : option hist :=
  match k with
  | O => Some h
  | S k' => match record_value h v with Some h' => record_times h' v k' | None => None end
  end.

Definition in_range (h : hist) (v : Z) : bool :=
  negb ((counts_index_for (h_cfg h) v <? 0) || (c_len (h_cfg h) <=? counts_index_for (h_cfg h) v)).

Lemma record_values_in_range : forall h v n,
  in_range h v = true ->
  record_values h v n =
    Some (mkHist (h_cfg h) (h_total h + n) (upd (h_counts h) (counts_index_for (h_cfg h) v) n)).
Proof.
  intros h v n H. unfold record_values, in_range in *.
  destruct ((counts_index_for (h_cfg h) v <? 0) || (c_len (h_cfg h) <=? counts_index_for (h_cfg h) v)); [discriminate|reflexivity].
Qed.

Lemma record_values_out_of_range : forall h v n, in_range h v = false -> record_values h v n = None.
Proof.
  intros h v n H. unfold record_values, in_range in *.
  destruct ((counts_index_for (h_cfg h) v <? 0) || (c_len (h_cfg h) <=? counts_index_for (h_cfg h) v)); [reflexivity|discriminate].
Qed.

Lemma record_times_in_range : forall k h v, in_range h v = true ->
  exists hk, record_times h v k = Some hk /\ h_cfg hk = h_cfg h /\ h_total hk = h_total h + Z.of_nat k /\
    forall j, h_counts hk j = upd (h_counts h) (counts_index_for (h_cfg h) v) (Z.of_nat k) j.
Proof.
  induction k as [|k IH]; intros h v Hr.
  - exists h. cbn [record_times]. repeat split; try lia.
    intro j. unfold upd. destruct (j =? counts_index_for (h_cfg h) v); lia.
  - cbn [record_times]. unfold record_value. rewrite (record_values_in_range h v 1 Hr).
    set (h1 := mkHist (h_cfg h) (h_total h + 1) (upd (h_counts h) (counts_index_for (h_cfg h) v) 1)).
    assert (Hr1 : in_range h1 v = true) by (unfold in_range, h1 in *; cbn [h_cfg]; exact Hr).
    destruct (IH h1 v Hr1) as [hk [E [C [T F]]]].
    exists hk. split; [exact E|]. split; [rewrite C; reflexivity|].
    split; [rewrite T; unfold h1; cbn [h_total]; lia|].
    intro j. rewrite F. unfold h1; cbn [h_cfg h_counts]. unfold upd.
    destruct (j =? counts_index_for (h_cfg h) v); lia.
Qed.

Lemma record_times_out_of_range : forall k h v, in_range h v = false -> record_times h v (S k) = None.
Proof.
  intros k h v Hr. cbn [record_times]. unfold record_value. rewrite (record_values_out_of_range h v 1 Hr). reflexivity.
Qed.

(* the statement used by Props/C12.v *)
Lemma record_values_is_repeated : forall h v k,
  (in_range h v = true ->
     exists hv hk, record_values h v (Z.of_nat k) = Some hv /\ record_times h v k = Some hk /\
       h_cfg hk = h_cfg hv /\ h_total hk = h_total hv /\ forall j, h_counts hk j = h_counts hv j) /\
  (in_range h v = false -> record_values h v (Z.of_nat (S k)) = None /\ record_times h v (S k) = None).
Proof.
  intros h v k. split; intro Hr.
  - destruct (record_times_in_range k h v Hr) as [hk [E [C [T F]]]].
    eexists. exists hk. split; [apply record_values_in_range; exact Hr|].
    split; [exact E|]. cbn [h_cfg h_total h_counts]. repeat split; assumption.
  - split; [apply record_values_out_of_range; exact Hr | apply record_times_out_of_range; exact Hr].
Qed.
