(* Proofs for C15: the recorder model (Model/Recorder.v) satisfies the policy of
   Model/RecorderOk.v for every call history. *)
From Coq Require Import ZArith List Bool Lia.
From FV.Model Require Import Hdr Recorder RecorderOk.
Import ListNotations.
Open Scope Z_scope.

Arguments stamp_ts : simpl never.
Arguments gate_open : simpl never.

(* ---------------------------------------------------------------- int64 *)
Lemma wrap64_range z : - two63 <= wrap64 z < two63.
Proof.
  unfold wrap64, two63, two64.
  assert (H := Z.mod_pos_bound (z + 9223372036854775808) 18446744073709551616). lia.
Qed.

Lemma wrap64_small z : - two63 <= z < two63 -> wrap64 z = z.
Proof.
  unfold wrap64, two63, two64. intros H.
  rewrite Z.mod_small; lia.
Qed.

Lemma wrap64_0 : wrap64 0 = 0.
Proof. reflexivity. Qed.

Lemma wrap64_add_l a b : wrap64 (wrap64 a + b) = wrap64 (a + b).
Proof.
  unfold wrap64, two63, two64.
  replace ((a + 9223372036854775808) mod 18446744073709551616 - 9223372036854775808 + b + 9223372036854775808)
    with ((a + 9223372036854775808) mod 18446744073709551616 + b) by lia.
  rewrite Zplus_mod_idemp_l. f_equal. f_equal. lia.
Qed.

Lemma wrap64_idem a : wrap64 (wrap64 a) = wrap64 a.
Proof. apply wrap64_small, wrap64_range. Qed.

(* ---------------------------------------------------------------- lists *)
Lemma fold_left_snoc {A B} (f : A -> B -> A) l x a : fold_left f (l ++ [x]) a = f (fold_left f l a) x.
Proof. rewrite fold_left_app. reflexivity. Qed.

Lemma lsum_app l1 l2 : lsum (l1 ++ l2) = lsum l1 + lsum l2.
Proof. unfold lsum. induction l1 as [|a l1 IH]; cbn [app fold_right]; [reflexivity | rewrite IH; lia]. Qed.

(* ---------------------------------------------------------------- the policy's folds, one step *)
Lemma pctx_snoc K iv last0 h o : pctx K iv last0 (h ++ [o]) = ctx_step K iv (pctx K iv last0 h) o.
Proof. apply fold_left_snoc. Qed.

Lemma cw_fst K iv last0 h : fst (fold_left (cw_step K iv) h (ctx0 K last0, [])) = pctx K iv last0 h.
Proof.
  unfold pctx. induction h as [|o h IH] using rev_ind; [reflexivity|].
  rewrite !fold_left_snoc. unfold cw_step at 1. cbn [fst]. rewrite IH. reflexivity.
Qed.

Lemma cwindow_snoc K iv last0 h o :
  cwindow K iv last0 (h ++ [o]) =
  if is_reset o then [] else cwindow K iv last0 h ++ [(pctx K iv last0 h, o)].
Proof.
  unfold cwindow. rewrite fold_left_snoc. unfold cw_step at 1. cbn [snd]. rewrite cw_fst. reflexivity.
Qed.

Lemma gauges_of_snoc g0 h o : gauges_of g0 (h ++ [o]) = g_step (gauges_of g0 h) o.
Proof. apply fold_left_snoc. Qed.

Lemma since_reset_snoc h o :
  since_reset (h ++ [o]) = if is_reset o then [] else since_reset h ++ [o].
Proof. unfold since_reset. rewrite fold_left_snoc. reflexivity. Qed.

Lemma cwindow_since_reset K iv last0 h : map snd (cwindow K iv last0 h) = since_reset h.
Proof.
  induction h as [|o h IH] using rev_ind; [reflexivity|].
  rewrite cwindow_snoc, since_reset_snoc. destruct (is_reset o); [reflexivity|].
  rewrite map_app, IH. reflexivity.
Qed.

(* ---------------------------------------------------------------- the model, one step *)
Lemma run_from_app K iv fails st h1 h2 :
  run_from K iv fails st (h1 ++ h2) =
  (fst (run_from K iv fails (fst (run_from K iv fails st h1)) h2),
   snd (run_from K iv fails st h1) ++ snd (run_from K iv fails (fst (run_from K iv fails st h1)) h2)).
Proof.
  revert st. induction h1 as [|o h1 IH]; intros st.
  - cbn [app run_from fst snd]. destruct (run_from K iv fails st h2); reflexivity.
  - cbn [app run_from fst snd]. rewrite IH. reflexivity.
Qed.

(* ---------------------------------------------------------------- the main step lemma *)
Record accs := mkA { a_id : Z; a_n : Z; a_ops : Z; a_size : Z; a_errs : Z; a_dur : Z; a_total : Z;
                     a_hn : list Z; a_hops : list Z; a_hsize : list Z; a_herrs : list Z;
                     a_hdur : list Z; a_htotal : list Z; a_el : list err }.

Definition accs_of (K : kind) (iv : Z) (fails : Z -> bool) (w : list (ctx * op)) : accs :=
  mkA (last_id w)
      (lsum (wmap (att_n K) w)) (lsum (wmap att_ops w)) (lsum (wmap att_size w)) (lsum (wmap att_errs w))
      (fold_left (dur_upd K) w 0) (fold_left (total_upd K) w 0)
      (filter accepts_counter (wmap (att_n K) w)) (filter accepts_counter (wmap att_ops w))
      (filter accepts_counter (wmap att_size w)) (filter accepts_counter (wmap att_errs w))
      (filter accepts_timer (wmap att_dur w)) (filter accepts_timer (wmapc (att_total K) w))
      (errs_of K iv fails w).

Definition acc_step (K : kind) (iv : Z) (fails : Z -> bool) (a : accs) (c : ctx) (o : op) : accs :=
  mkA (match o with SetID v => v | _ => a_id a end)
      (a_n a + lsum (att_n K o)) (a_ops a + lsum (att_ops o)) (a_size a + lsum (att_size o))
      (a_errs a + lsum (att_errs o))
      (dur_upd K (a_dur a) (c, o)) (total_upd K (a_total a) (c, o))
      (a_hn a ++ filter accepts_counter (att_n K o)) (a_hops a ++ filter accepts_counter (att_ops o))
      (a_hsize a ++ filter accepts_counter (att_size o)) (a_herrs a ++ filter accepts_counter (att_errs o))
      (a_hdur a ++ filter accepts_timer (att_dur o)) (a_htotal a ++ filter accepts_timer (att_total K c o))
      (a_el a ++ call_errs K iv fails c o).

Definition acc0 : accs := mkA 0 0 0 0 0 0 0 [] [] [] [] [] [] [].

Lemma accs_of_nil K iv fails : accs_of K iv fails [] = acc0.
Proof. reflexivity. Qed.

Lemma accs_of_snoc K iv fails w c o :
  accs_of K iv fails (w ++ [(c, o)]) = acc_step K iv fails (accs_of K iv fails w) c o.
Proof.
  unfold accs_of, acc_step, wmap, wmapc, errs_of, last_id.
  rewrite !flat_map_app, !fold_left_app, !filter_app, !lsum_app.
  cbn [flat_map fold_left fst snd]. rewrite !app_nil_r. reflexivity.
Qed.

Definition pt_of_accs (K : kind) (ts : Z) (a : accs) (g : gauges) : point :=
  if is_hist K then
    mkP ts (a_id a) 0 0 0 0 0 0 (mkH (a_hn a) (a_hops a) (a_hsize a) (a_herrs a) (a_hdur a) (a_htotal a)) g
  else
    mkP ts (a_id a) (wrap64 (a_n a)) (wrap64 (a_ops a)) (wrap64 (a_size a)) (wrap64 (a_errs a))
        (wrap64 (a_dur a)) (wrap64 (a_total a)) hists0 g.

Lemma point_of_accs K iv fails ts w g : point_of K ts w g = pt_of_accs K ts (accs_of K iv fails w) g.
Proof. reflexivity. Qed.

Definition st_of (K : kind) (c : ctx) (a : accs) (g : gauges) : state :=
  mkS (pt_of_accs K (c_ts c) a g) (c_started c) (c_last c) (a_el a) (c_adds c).

Ltac unf :=
  cbv beta iota zeta delta [step end_test end_iter tick reset begin set_dur set_total inc_n inc_ops inc_size inc_errs
    end_raw end_single end_grouped end_interval end_hist end_hist_single end_hist_grouped
    end_hist_interval end_hist_records persist_if_stamped add_elapsed hrec_elapsed
    hrec_n hrec_ops hrec_size hrec_errs hrec_dur hrec_total hrec
    set_hn set_hops set_hsize set_herrs set_hdur set_htotal
    add_n add_ops add_size add_errs add_dur add_total persist stamp set_gauges
    st_pt st_started st_last st_err
    with_ts with_id with_n with_ops with_size with_errs with_dur with_total with_h with_g
    fresh_point no_out hists0
    st_of pt_of_accs acc_step acc0 call_errs rejected rej persists ctx_step persist_ts
    att_n att_ops att_size att_errs att_dur
    att_total elapsed dur_upd total_upd g_step is_reset grouped begin_stamps is_hist
    p_ts p_id p_n p_ops p_size p_errs p_dur p_total p_h p_g
    s_pt s_started s_last s_errs s_adds g_state g_workers g_failed
    h_n h_ops h_size h_errs h_dur h_total c_ts c_started c_last c_adds
    a_id a_n a_ops a_size a_errs a_dur a_total a_hn a_hops a_hsize a_herrs a_hdur a_htotal a_el
    fst snd negb].

Ltac split_ifs :=
  repeat (first [ match goal with H : ?b = _ |- context[if ?b then _ else _] => rewrite H end
                | match goal with |- context[if ?b then _ else _] => destruct b eqn:? end ];
          cbn [app filter map lsum fold_right negb]).

Ltac fin :=
  cbn; rewrite ?wrap64_add_l, ?wrap64_idem, ?wrap64_0, ?Z.add_0_r, <- ?app_assoc, ?app_nil_r; cbn;
  try reflexivity.

Lemma step_acc K iv fails c a g o :
  step K iv fails (st_of K c a g) o =
  (st_of K (ctx_step K iv c o) (if is_reset o then acc0 else acc_step K iv fails a c o) (g_step g o),
   mkO (if persists K iv c o then [pt_of_accs K (persist_ts K c o) (acc_step K iv fails a c o) (g_step g o)] else [])
       (match o with EndTest _ => Some (a_el (acc_step K iv fails a c o)) | _ => None end)).
Proof.
  destruct c as [ts started last adds].
  destruct a as [aid an aops asize aerrs adur atotal hn hops hsize herrs hdur htotal el].
  destruct o; destruct K; unf.
  all: cbn [app filter map lsum fold_right negb].
  all: split_ifs; fin.
  all: try (repeat f_equal; lia).
Qed.

