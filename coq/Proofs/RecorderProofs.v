(* Proofs for C15: the recorder model (Model/Recorder.v) satisfies the policy of
   Model/RecorderOk.v for every call history. *)
From Coq Require Import ZArith List Bool Lia.
From FV.Model Require Import Hdr Recorder RecorderOk.
Import ListNotations.
Open Scope Z_scope.

Arguments stamp_ts : simpl never.
Arguments gate_open : simpl never.

(* ---------------------------------------------------------------- int64 *)
Lemma wrap64_range z : - two63 <= wrap64 z < two63.
Proof.
  unfold wrap64, two63, two64.
  assert (H := Z.mod_pos_bound (z + 9223372036854775808) 18446744073709551616). lia.
Qed.

Lemma wrap64_small z : - two63 <= z < two63 -> wrap64 z = z.
Proof.
  unfold wrap64, two63, two64. intros H.
  rewrite Z.mod_small; lia.
Qed.

Lemma wrap64_0 : wrap64 0 = 0.
Proof. reflexivity. Qed.

Lemma wrap64_add_l a b : wrap64 (wrap64 a + b) = wrap64 (a + b).
Proof.
  unfold wrap64, two63, two64.
  replace ((a + 9223372036854775808) mod 18446744073709551616 - 9223372036854775808 + b + 9223372036854775808)
    with ((a + 9223372036854775808) mod 18446744073709551616 + b) by lia.
  rewrite Zplus_mod_idemp_l. f_equal. f_equal. lia.
Qed.

Lemma wrap64_idem a : wrap64 (wrap64 a) = wrap64 a.
Proof. apply wrap64_small, wrap64_range. Qed.

(* ---------------------------------------------------------------- lists *)
Lemma fold_left_snoc {A B} (f : A -> B -> A) l x a : fold_left f (l ++ [x]) a = f (fold_left f l a) x.
Proof. rewrite fold_left_app. reflexivity. Qed.

Lemma lsum_app l1 l2 : lsum (l1 ++ l2) = lsum l1 + lsum l2.
Proof. unfold lsum. induction l1 as [|a l1 IH]; cbn [app fold_right]; [reflexivity | rewrite IH; lia]. Qed.

(* ---------------------------------------------------------------- the policy's folds, one step *)
Lemma pctx_snoc K iv last0 h o : pctx K iv last0 (h ++ [o]) = ctx_step K iv (pctx K iv last0 h) o.
Proof. apply fold_left_snoc. Qed.

Lemma cw_fst K iv last0 h : fst (fold_left (cw_step K iv) h (ctx0 K last0, [])) = pctx K iv last0 h.
Proof.
  unfold pctx. induction h as [|o h IH] using rev_ind; [reflexivity|].
  rewrite !fold_left_snoc. unfold cw_step at 1. cbn [fst]. rewrite IH. reflexivity.
Qed.

Lemma cwindow_snoc K iv last0 h o :
  cwindow K iv last0 (h ++ [o]) =
  if is_reset o then [] else cwindow K iv last0 h ++ [(pctx K iv last0 h, o)].
Proof.
  unfold cwindow. rewrite fold_left_snoc. unfold cw_step at 1. cbn [snd]. rewrite cw_fst. reflexivity.
Qed.

Lemma gauges_of_snoc g0 h o : gauges_of g0 (h ++ [o]) = g_step (gauges_of g0 h) o.
Proof. apply fold_left_snoc. Qed.

Lemma since_reset_snoc h o :
  since_reset (h ++ [o]) = if is_reset o then [] else since_reset h ++ [o].
Proof. unfold since_reset. rewrite fold_left_snoc. reflexivity. Qed.

Lemma cwindow_since_reset K iv last0 h : map snd (cwindow K iv last0 h) = since_reset h.
Proof.
  induction h as [|o h IH] using rev_ind; [reflexivity|].
  rewrite cwindow_snoc, since_reset_snoc. destruct (is_reset o); [reflexivity|].
  rewrite map_app, IH. reflexivity.
Qed.

(* ---------------------------------------------------------------- the model, one step *)
Lemma run_from_app K iv fails st h1 h2 :
  run_from K iv fails st (h1 ++ h2) =
  (fst (run_from K iv fails (fst (run_from K iv fails st h1)) h2),
   snd (run_from K iv fails st h1) ++ snd (run_from K iv fails (fst (run_from K iv fails st h1)) h2)).
Proof.
  revert st. induction h1 as [|o h1 IH]; intros st.
  - cbn [app run_from fst snd]. destruct (run_from K iv fails st h2); reflexivity.
  - cbn [app run_from fst snd]. rewrite IH. reflexivity.
Qed.

(* ---------------------------------------------------------------- the main step lemma *)
Record accs := mkA { a_id : Z; a_n : Z; a_ops : Z; a_size : Z; a_errs : Z; a_dur : Z; a_total : Z;
                     a_hn : list Z; a_hops : list Z; a_hsize : list Z; a_herrs : list Z;
                     a_hdur : list Z; a_htotal : list Z; a_el : list err }.

Definition accs_of (K : kind) (iv : Z) (fails : Z -> bool) (w : list (ctx * op)) : accs :=
  mkA (last_id w)
      (lsum (wmap (att_n K) w)) (lsum (wmap att_ops w)) (lsum (wmap att_size w)) (lsum (wmap att_errs w))
      (fold_left (dur_upd K) w 0) (fold_left (total_upd K) w 0)
      (filter accepts_counter (wmap (att_n K) w)) (filter accepts_counter (wmap att_ops w))
      (filter accepts_counter (wmap att_size w)) (filter accepts_counter (wmap att_errs w))
      (filter accepts_timer (wmap att_dur w)) (filter accepts_timer (wmapc (att_total K) w))
      (errs_of K iv fails w).

Definition acc_step (K : kind) (iv : Z) (fails : Z -> bool) (a : accs) (c : ctx) (o : op) : accs :=
  mkA (match o with SetID v => v | _ => a_id a end)
      (a_n a + lsum (att_n K o)) (a_ops a + lsum (att_ops o)) (a_size a + lsum (att_size o))
      (a_errs a + lsum (att_errs o))
      (dur_upd K (a_dur a) (c, o)) (total_upd K (a_total a) (c, o))
      (a_hn a ++ filter accepts_counter (att_n K o)) (a_hops a ++ filter accepts_counter (att_ops o))
      (a_hsize a ++ filter accepts_counter (att_size o)) (a_herrs a ++ filter accepts_counter (att_errs o))
      (a_hdur a ++ filter accepts_timer (att_dur o)) (a_htotal a ++ filter accepts_timer (att_total K c o))
      (a_el a ++ call_errs K iv fails c o).

Definition acc0 : accs := mkA 0 0 0 0 0 0 0 [] [] [] [] [] [] [].

Lemma accs_of_nil K iv fails : accs_of K iv fails [] = acc0.
Proof. reflexivity. Qed.

Lemma accs_of_snoc K iv fails w c o :
  accs_of K iv fails (w ++ [(c, o)]) = acc_step K iv fails (accs_of K iv fails w) c o.
Proof.
  unfold accs_of, acc_step, wmap, wmapc, errs_of, last_id.
  rewrite !flat_map_app, !fold_left_app, !filter_app, !lsum_app.
  cbn [flat_map fold_left fst snd]. rewrite !app_nil_r. reflexivity.
Qed.

Definition pt_of_accs (K : kind) (ts : Z) (a : accs) (g : gauges) : point :=
  if is_hist K then
    mkP ts (a_id a) 0 0 0 0 0 0 (mkH (a_hn a) (a_hops a) (a_hsize a) (a_herrs a) (a_hdur a) (a_htotal a)) g
  else
    mkP ts (a_id a) (wrap64 (a_n a)) (wrap64 (a_ops a)) (wrap64 (a_size a)) (wrap64 (a_errs a))
        (wrap64 (a_dur a)) (wrap64 (a_total a)) hists0 g.

Lemma point_of_accs K iv fails ts w g : point_of K ts w g = pt_of_accs K ts (accs_of K iv fails w) g.
Proof. reflexivity. Qed.

Definition st_of (K : kind) (c : ctx) (a : accs) (g : gauges) : state :=
  mkS (pt_of_accs K (c_ts c) a g) (c_started c) (c_last c) (a_el a) (c_adds c).

Ltac unf :=
  cbv beta iota zeta delta [step end_test end_iter tick reset begin set_dur set_total inc_n inc_ops inc_size inc_errs
    end_raw end_single end_grouped end_interval end_hist end_hist_single end_hist_grouped
    end_hist_interval end_hist_records persist_if_stamped add_elapsed hrec_elapsed
    hrec_n hrec_ops hrec_size hrec_errs hrec_dur hrec_total hrec
    set_hn set_hops set_hsize set_herrs set_hdur set_htotal
    add_n add_ops add_size add_errs add_dur add_total persist stamp set_gauges
    st_pt st_started st_last st_err
    with_ts with_id with_n with_ops with_size with_errs with_dur with_total with_h with_g
    fresh_point no_out hists0
    st_of pt_of_accs acc_step acc0 call_errs rejected rej persists ctx_step persist_ts
    att_n att_ops att_size att_errs att_dur
    att_total elapsed dur_upd total_upd g_step is_reset grouped begin_stamps is_hist
    p_ts p_id p_n p_ops p_size p_errs p_dur p_total p_h p_g
    s_pt s_started s_last s_errs s_adds g_state g_workers g_failed
    h_n h_ops h_size h_errs h_dur h_total c_ts c_started c_last c_adds
    a_id a_n a_ops a_size a_errs a_dur a_total a_hn a_hops a_hsize a_herrs a_hdur a_htotal a_el
    fst snd negb].

Ltac split_ifs :=
  repeat (first [ match goal with H : ?b = _ |- context[if ?b then _ else _] => rewrite H end
                | match goal with |- context[if ?b then _ else _] => destruct b eqn:? end ];
          cbn [app filter map lsum fold_right negb]).

Ltac fin :=
  cbn; rewrite ?wrap64_add_l, ?wrap64_idem, ?wrap64_0, ?Z.add_0_r, <- ?app_assoc, ?app_nil_r; cbn;
  try reflexivity.

Lemma step_acc K iv fails c a g o :
  step K iv fails (st_of K c a g) o =
  (st_of K (ctx_step K iv c o) (if is_reset o then acc0 else acc_step K iv fails a c o) (g_step g o),
   mkO (if persists K iv c o then [pt_of_accs K (persist_ts K c o) (acc_step K iv fails a c o) (g_step g o)] else [])
       (match o with EndTest _ => Some (a_el (acc_step K iv fails a c o)) | _ => None end)).
Proof.
  destruct c as [ts started last adds].
  destruct a as [aid an aops asize aerrs adur atotal hn hops hsize herrs hdur htotal el].
  destruct o; destruct K; unf.
  all: cbn [app filter map lsum fold_right negb].
  all: split_ifs; fin.
  all: try (repeat f_equal; lia).
Qed.

(* ---------------------------------------------------------------- model = policy *)
Lemma abs_state_eq K iv last0 fails h :
  abs_state K iv last0 fails h =
  st_of K (pctx K iv last0 h) (accs_of K iv fails (cwindow K iv last0 h)) (gauges_of gauges0 h).
Proof. reflexivity. Qed.

Lemma step_abs K iv last0 fails h o :
  step K iv fails (abs_state K iv last0 fails h) o =
  (abs_state K iv last0 fails (h ++ [o]), sp_out K iv last0 fails h o).
Proof.
  rewrite !abs_state_eq, step_acc. unfold sp_out.
  rewrite pctx_snoc, cwindow_snoc, gauges_of_snoc.
  rewrite (point_of_accs K iv fails), accs_of_snoc.
  f_equal.
  - destruct (is_reset o); [rewrite accs_of_nil | rewrite accs_of_snoc]; reflexivity.
  - f_equal. destruct o; try reflexivity.
    unfold errs_of at 1. change (flat_map _ ?w) with (a_el (accs_of K iv fails w)).
    rewrite accs_of_snoc. reflexivity.
Qed.

Lemma init_abs K iv last0 fails : init K last0 = abs_state K iv last0 fails [].
Proof. destruct K; reflexivity. Qed.

Lemma run_from_abs K iv last0 fails rest : forall pre,
  run_from K iv fails (abs_state K iv last0 fails pre) rest =
  (abs_state K iv last0 fails (pre ++ rest), spec_outs_from K iv last0 fails pre rest).
Proof.
  induction rest as [|o rest IH]; intros pre.
  - cbn [run_from spec_outs_from]. rewrite app_nil_r. reflexivity.
  - cbn [run_from spec_outs_from]. rewrite step_abs. cbn [fst snd]. rewrite IH.
    cbn [fst snd]. rewrite <- app_assoc. reflexivity.
Qed.

(* the reference model and the policy agree on every history: final state and every
   observable output *)
Lemma run_spec K iv last0 fails h :
  run K iv last0 fails h = (abs_state K iv last0 fails h, spec_outs K iv last0 fails h).
Proof. unfold run, spec_outs. rewrite (init_abs K iv last0 fails). apply (run_from_abs K iv last0 fails h []). Qed.

(* ---------------------------------------------------------------- outputs by position *)
Lemma spec_outs_from_length K iv last0 fails rest : forall pre,
  length (spec_outs_from K iv last0 fails pre rest) = length rest.
Proof. induction rest as [|o rest IH]; intros pre; cbn [spec_outs_from length]; [|rewrite IH]; reflexivity. Qed.

Lemma spec_outs_from_app K iv last0 fails a : forall pre b,
  spec_outs_from K iv last0 fails pre (a ++ b) =
  spec_outs_from K iv last0 fails pre a ++ spec_outs_from K iv last0 fails (pre ++ a) b.
Proof.
  induction a as [|o a IH]; intros pre b.
  - cbn [app spec_outs_from]. rewrite app_nil_r. reflexivity.
  - cbn [app spec_outs_from]. rewrite IH, <- app_assoc. reflexivity.
Qed.

Lemma run_out_at K iv last0 fails pre o post :
  nth (length pre) (snd (run K iv last0 fails (pre ++ o :: post))) no_out = sp_out K iv last0 fails pre o.
Proof.
  rewrite run_spec. cbn [snd]. unfold spec_outs. rewrite spec_outs_from_app. cbn [app spec_outs_from].
  rewrite app_nth2; rewrite spec_outs_from_length; [|lia].
  rewrite Nat.sub_diag. reflexivity.
Qed.

Lemma run_length K iv last0 fails h : length (snd (run K iv last0 fails h)) = length h.
Proof. rewrite run_spec. apply spec_outs_from_length. Qed.

(* ---------------------------------------------------------------- windows without contexts *)
Lemma wmap_since K iv last0 (f : op -> list Z) h :
  wmap f (cwindow K iv last0 h) = flat_map f (since_reset h).
Proof.
  rewrite <- (cwindow_since_reset K iv last0). unfold wmap.
  induction (cwindow K iv last0 h) as [|x l IH]; [reflexivity|].
  cbn [flat_map map]. rewrite IH. reflexivity.
Qed.

Lemma wmap_snoc (f : op -> list Z) w c o : wmap f (w ++ [(c, o)]) = wmap f w ++ f o.
Proof. unfold wmap. rewrite flat_map_app. cbn [flat_map snd]. rewrite app_nil_r. reflexivity. Qed.

Lemma wmapc_snoc (f : ctx -> op -> list Z) w c o : wmapc f (w ++ [(c, o)]) = wmapc f w ++ f c o.
Proof. unfold wmapc. rewrite flat_map_app. cbn [flat_map fst snd]. rewrite app_nil_r. reflexivity. Qed.

(* for the summing recorders the duration folds are plain sums *)
Lemma dur_fold_sum K w : K <> KRaw -> fold_left (dur_upd K) w 0 = lsum (wmap att_dur w).
Proof.
  intros HK. induction w as [|[c o] w IH] using rev_ind; [reflexivity|].
  rewrite fold_left_snoc, wmap_snoc, lsum_app, IH. unfold dur_upd. cbn [snd].
  destruct o; cbn [att_dur lsum fold_right]; try lia.
  destruct K; try lia. congruence.
Qed.

Lemma total_fold_sum K w : K <> KRaw -> fold_left (total_upd K) w 0 = lsum (wmapc (att_total K) w).
Proof.
  intros HK. induction w as [|[c o] w IH] using rev_ind; [reflexivity|].
  rewrite fold_left_snoc, wmapc_snoc, lsum_app, IH. unfold total_upd, att_total. cbn [fst snd].
  destruct o; cbn [lsum fold_right]; try lia.
  destruct K; try lia. congruence.
Qed.

(* ---------------------------------------------------------------- (1) counters, (2) gauges, (3) durations *)
Definition cur_point K iv last0 fails h : point := s_pt (fst (run K iv last0 fails h)).

Lemma cur_point_eq K iv last0 fails h :
  cur_point K iv last0 fails h =
  point_of K (c_ts (pctx K iv last0 h)) (cwindow K iv last0 h) (gauges_of gauges0 h).
Proof. unfold cur_point. rewrite run_spec. reflexivity. Qed.

Lemma counters_perf : forall K iv last0 fails h, is_hist K = false ->
  let p := cur_point K iv last0 fails h in
  p_n p = wrap64 (lsum (flat_map (att_n K) (since_reset h))) /\
  p_ops p = wrap64 (lsum (flat_map att_ops (since_reset h))) /\
  p_size p = wrap64 (lsum (flat_map att_size (since_reset h))) /\
  p_errs p = wrap64 (lsum (flat_map att_errs (since_reset h))).
Proof.
  intros K iv last0 fails h HK p. subst p. rewrite cur_point_eq. unfold point_of. rewrite HK.
  cbn [p_n p_ops p_size p_errs]. rewrite !(wmap_since K iv last0). repeat split; reflexivity.
Qed.

Lemma counters_hist : forall K iv last0 fails h, is_hist K = true ->
  let p := cur_point K iv last0 fails h in
  h_n (p_h p) = filter accepts_counter (flat_map (att_n K) (since_reset h)) /\
  h_ops (p_h p) = filter accepts_counter (flat_map att_ops (since_reset h)) /\
  h_size (p_h p) = filter accepts_counter (flat_map att_size (since_reset h)) /\
  h_errs (p_h p) = filter accepts_counter (flat_map att_errs (since_reset h)) /\
  h_dur (p_h p) = filter accepts_timer (flat_map att_dur (since_reset h)).
Proof.
  intros K iv last0 fails h HK p. subst p. rewrite cur_point_eq. unfold point_of. rewrite HK.
  cbn [p_h h_n h_ops h_size h_errs h_dur]. rewrite !(wmap_since K iv last0). repeat split; reflexivity.
Qed.

Lemma gauges_last_set : forall K iv last0 fails h,
  p_g (cur_point K iv last0 fails h) = gauges_of gauges0 h.
Proof. intros. rewrite cur_point_eq. unfold point_of. destruct (is_hist K); reflexivity. Qed.

Lemma durations_summing : forall K iv last0 fails h, is_hist K = false -> K <> KRaw ->
  let p := cur_point K iv last0 fails h in
  p_dur p = wrap64 (lsum (flat_map att_dur (since_reset h))) /\
  p_total p = wrap64 (lsum (wmapc (att_total K) (cwindow K iv last0 h))).
Proof.
  intros K iv last0 fails h HK HR p. subst p. rewrite cur_point_eq. unfold point_of. rewrite HK.
  cbn [p_dur p_total]. rewrite dur_fold_sum, total_fold_sum by assumption.
  rewrite (wmap_since K iv last0). split; reflexivity.
Qed.

Lemma durations_raw : forall iv last0 fails h,
  let p := cur_point KRaw iv last0 fails h in
  p_dur p = wrap64 (fold_left (dur_upd KRaw) (cwindow KRaw iv last0 h) 0) /\
  p_total p = wrap64 (fold_left (total_upd KRaw) (cwindow KRaw iv last0 h) 0).
Proof. intros. subst p. rewrite cur_point_eq. split; reflexivity. Qed.

Lemma total_hist : forall K iv last0 fails h, is_hist K = true ->
  h_total (p_h (cur_point K iv last0 fails h)) =
  filter accepts_timer (wmapc (att_total K) (cwindow K iv last0 h)).
Proof. intros K iv last0 fails h HK. rewrite cur_point_eq. unfold point_of. rewrite HK. reflexivity. Qed.

(* every elapsed part is (end reading) - (reading of an earlier BeginIteration) *)
Lemma started_is_begin K iv last0 h :
  c_started (pctx K iv last0 h) = 0 \/ In (BeginIteration (c_started (pctx K iv last0 h))) h.
Proof.
  induction h as [|o h IH] using rev_ind; [left; destruct K; reflexivity|].
  rewrite pctx_snoc.
  assert (HI : forall x, In x h -> In x (h ++ [o])) by (intros; apply in_or_app; left; assumption).
  destruct o; unfold ctx_step; cbn [c_started];
    try (destruct IH as [IH|IH]; [left; exact IH | right; apply HI; exact IH]);
    try (left; reflexivity).
  - right. apply in_or_app. right. left. reflexivity.
  - destruct K; cbn [c_started]; try (left; reflexivity);
      try (destruct (gate_open now (c_last (pctx _ iv last0 h)) iv); cbn [c_started]; left; reflexivity).
    destruct IH as [IH|IH]; [left; exact IH | right; apply HI; exact IH].
  - destruct K; cbn [c_started]; (destruct IH as [IH|IH]; [left; exact IH | right; apply HI; exact IH]).
Qed.

Definition clock_of (o : op) : option Z :=
  match o with
  | BeginIteration now | EndIteration _ now | EndTest now | Tick now => Some now
  | _ => None
  end.

Lemma elapsed_parts : forall K iv last0 pre o e,
  In e (elapsed K (pctx K iv last0 pre) o) ->
  exists b now, In (BeginIteration b) pre /\ clock_of o = Some now /\ e = now - b.
Proof.
  intros K iv last0 pre o e HIn.
  destruct (started_is_begin K iv last0 pre) as [H0|HB].
  - unfold elapsed in HIn. rewrite H0 in HIn. destruct o; cbn in HIn; try contradiction.
    destruct K; contradiction.
  - unfold elapsed in HIn. destruct o; try contradiction.
    + destruct (c_started (pctx K iv last0 pre) =? 0); [contradiction|].
      destruct HIn as [HIn|[]]. eexists _, now. repeat split; [exact HB | symmetry; exact HIn].
    + destruct K; try contradiction.
      destruct (c_started (pctx KHistInterval iv last0 pre) =? 0); [contradiction|].
      destruct HIn as [HIn|[]]. eexists _, now. repeat split; [exact HB | symmetry; exact HIn].
Qed.

Lemma elapsed_bounded : forall K iv last0 pre o e lo hi,
  In e (elapsed K (pctx K iv last0 pre) o) ->
  (forall b, In (BeginIteration b) pre -> lo <= b) ->
  (forall now, clock_of o = Some now -> now <= hi /\ forall b, In (BeginIteration b) pre -> b <= now) ->
  0 <= e <= hi - lo.
Proof.
  intros K iv last0 pre o e lo hi HIn Hlo Hhi.
  destruct (elapsed_parts _ _ _ _ _ _ HIn) as (b & now & HB & HC & ->).
  destruct (Hhi now HC) as [H1 H2]. specialize (Hlo b HB). specialize (H2 b HB). lia.
Qed.

(* ---------------------------------------------------------------- (4) persistence moments *)
Lemma positions_spec K iv last0 fails rest : forall pre i,
  positions_from (fun x => match o_persisted x with [] => false | _ => true end) i
                 (spec_outs_from K iv last0 fails pre rest) =
  policy_positions_from K iv (pctx K iv last0 pre) i rest.
Proof.
  induction rest as [|o rest IH]; intros pre i; [reflexivity|].
  cbn [spec_outs_from positions_from policy_positions_from].
  rewrite IH, pctx_snoc. unfold sp_out. cbn [o_persisted].
  destruct (persists K iv (pctx K iv last0 pre) o); reflexivity.
Qed.

Lemma persistence_moments : forall K iv last0 fails h,
  persisted_positions (snd (run K iv last0 fails h)) = policy_positions K iv last0 h.
Proof. intros. rewrite run_spec. apply (positions_spec K iv last0 fails h [] 0%nat). Qed.

Lemma at_most_one_point : forall K iv last0 fails pre o post,
  (length (o_persisted (nth (length pre) (snd (run K iv last0 fails (pre ++ o :: post))) no_out)) <= 1)%nat.
Proof.
  intros. rewrite run_out_at. unfold sp_out. cbn [o_persisted].
  destruct (persists _ _ _ _); cbn [length]; lia.
Qed.

(* the number of collector.Add calls is the number of persisted points *)
Lemma adds_count_from K iv rest : forall c i,
  c_adds (fold_left (ctx_step K iv) rest c) =
  c_adds c + Z.of_nat (length (policy_positions_from K iv c i rest)).
Proof.
  induction rest as [|o rest IH]; intros c i; [cbn; lia|].
  cbn [fold_left policy_positions_from]. rewrite (IH _ (S i)), app_length.
  assert (H : c_adds (ctx_step K iv c o) = if persists K iv c o then c_adds c + 1 else c_adds c)
    by (unfold ctx_step; destruct o; destruct K; cbn [c_adds];
        repeat match goal with |- context[if ?b then _ else _] => destruct b end; reflexivity).
  rewrite H. destruct (persists K iv c o); cbn [length]; lia.
Qed.

Lemma adds_count : forall K iv last0 fails h,
  s_adds (fst (run K iv last0 fails h)) = Z.of_nat (length (persisted_positions (snd (run K iv last0 fails h)))).
Proof.
  intros. rewrite persistence_moments, run_spec. cbn [fst]. unfold abs_state. cbn [s_adds].
  unfold pctx, policy_positions. rewrite (adds_count_from K iv h _ 0%nat). destruct K; reflexivity.
Qed.

(* ---------------------------------------------------------------- the persisted points *)
Lemma persisted_point : forall K iv last0 fails pre o post p,
  In p (o_persisted (nth (length pre) (snd (run K iv last0 fails (pre ++ o :: post))) no_out)) ->
  persists K iv (pctx K iv last0 pre) o = true /\
  p = point_of K (persist_ts K (pctx K iv last0 pre) o)
               (cwindow K iv last0 pre ++ [(pctx K iv last0 pre, o)]) (gauges_of gauges0 (pre ++ [o])).
Proof.
  intros K iv last0 fails pre o post p. rewrite run_out_at. unfold sp_out. cbn [o_persisted].
  destruct (persists _ _ _ _); [|intros []]. intros [H|[]]. split; [reflexivity | symmetry; exact H].
Qed.

Lemma persisted_counters_perf : forall K iv last0 fails pre o post p, is_hist K = false ->
  In p (o_persisted (nth (length pre) (snd (run K iv last0 fails (pre ++ o :: post))) no_out)) ->
  p_n p = wrap64 (lsum (flat_map (att_n K) (since_reset pre ++ [o]))) /\
  p_ops p = wrap64 (lsum (flat_map att_ops (since_reset pre ++ [o]))) /\
  p_size p = wrap64 (lsum (flat_map att_size (since_reset pre ++ [o]))) /\
  p_errs p = wrap64 (lsum (flat_map att_errs (since_reset pre ++ [o]))) /\
  p_g p = gauges_of gauges0 (pre ++ [o]).
Proof.
  intros K iv last0 fails pre o post p HK HIn.
  destruct (persisted_point _ _ _ _ _ _ _ _ HIn) as [_ ->]. unfold point_of. rewrite HK.
  cbn [p_n p_ops p_size p_errs p_g]. rewrite !wmap_snoc, !(wmap_since K iv last0), !flat_map_app.
  cbn [flat_map]. rewrite !app_nil_r. repeat split; reflexivity.
Qed.

Lemma persisted_counters_hist : forall K iv last0 fails pre o post p, is_hist K = true ->
  In p (o_persisted (nth (length pre) (snd (run K iv last0 fails (pre ++ o :: post))) no_out)) ->
  h_n (p_h p) = filter accepts_counter (flat_map (att_n K) (since_reset pre ++ [o])) /\
  h_ops (p_h p) = filter accepts_counter (flat_map att_ops (since_reset pre ++ [o])) /\
  h_size (p_h p) = filter accepts_counter (flat_map att_size (since_reset pre ++ [o])) /\
  h_errs (p_h p) = filter accepts_counter (flat_map att_errs (since_reset pre ++ [o])) /\
  h_dur (p_h p) = filter accepts_timer (flat_map att_dur (since_reset pre ++ [o])) /\
  p_g p = gauges_of gauges0 (pre ++ [o]).
Proof.
  intros K iv last0 fails pre o post p HK HIn.
  destruct (persisted_point _ _ _ _ _ _ _ _ HIn) as [_ ->]. unfold point_of. rewrite HK.
  cbn [p_h h_n h_ops h_size h_errs h_dur p_g]. rewrite !wmap_snoc, !(wmap_since K iv last0), !flat_map_app.
  cbn [flat_map]. rewrite !app_nil_r. repeat split; reflexivity.
Qed.

(* ---------------------------------------------------------------- (5) EndTest *)
Lemma endtest_returns : forall K iv last0 fails pre now post,
  o_ret (nth (length pre) (snd (run K iv last0 fails (pre ++ EndTest now :: post))) no_out) =
  Some (errs_of K iv fails (cwindow K iv last0 pre ++ [(pctx K iv last0 pre, EndTest now)])).
Proof. intros. rewrite run_out_at. reflexivity. Qed.

Lemma only_endtest_returns : forall K iv last0 fails pre o post,
  (forall now, o <> EndTest now) ->
  o_ret (nth (length pre) (snd (run K iv last0 fails (pre ++ o :: post))) no_out) = None.
Proof. intros K iv last0 fails pre o post H. rewrite run_out_at. destruct o; try reflexivity. exfalso. eapply H. reflexivity. Qed.

(* ---------------------------------------------------------------- (6) after EndTest / Reset *)
Lemma point_of_nil K g : point_of K 0 [] g = fresh_point g.
Proof. destruct K; reflexivity. Qed.

Lemma last_zero_unless_grouped K iv last0 h : K <> KGrouped -> K <> KHistGrouped -> c_last (pctx K iv last0 h) = 0.
Proof.
  intros H1 H2. induction h as [|o h IH] using rev_ind; [destruct K; try reflexivity; congruence|].
  rewrite pctx_snoc. set (c := pctx K iv last0 h) in *. clearbody c.
  destruct K; try congruence; destruct o; unfold ctx_step; cbn [c_last grouped]; first [exact IH | reflexivity].
Qed.

Lemma after_reset_fresh : forall K iv last0 fails h r, is_reset r = true ->
  let st := fst (run K iv last0 fails (h ++ [r])) in
  st = fresh_state (gauges_of gauges0 h) 0 (s_adds st).
Proof.
  intros K iv last0 fails h r Hr st. subst st. rewrite run_spec. cbn [fst].
  unfold abs_state. rewrite pctx_snoc, cwindow_snoc, gauges_of_snoc, Hr.
  assert (Hg : g_step (gauges_of gauges0 h) r = gauges_of gauges0 h) by (destruct r; try discriminate; reflexivity).
  rewrite Hg. unfold fresh_state. cbn [s_adds].
  assert (Hc : exists a, ctx_step K iv (pctx K iv last0 h) r =
                         mkC 0 0 (if grouped K then 0 else c_last (pctx K iv last0 h)) a)
    by (destruct r; try discriminate; eexists; reflexivity).
  destruct Hc as [a Hc]. rewrite Hc. cbn [c_ts c_started c_last c_adds]. rewrite point_of_nil.
  f_equal. destruct K; cbn [grouped]; try reflexivity; apply last_zero_unless_grouped; congruence.
Qed.

Lemma continues_like_fresh : forall K iv last0 fails h1 r h2, is_reset r = true ->
  let st := fst (run K iv last0 fails (h1 ++ [r])) in
  snd (run K iv last0 fails (h1 ++ r :: h2)) =
  snd (run K iv last0 fails (h1 ++ [r])) ++
  snd (run_from K iv fails (fresh_state (gauges_of gauges0 h1) 0 (s_adds st)) h2).
Proof.
  intros K iv last0 fails h1 r h2 Hr st. subst st.
  rewrite <- (after_reset_fresh K iv last0 fails h1 r Hr).
  replace (h1 ++ r :: h2) with ((h1 ++ [r]) ++ h2) by (rewrite <- app_assoc; reflexivity).
  unfold run. rewrite run_from_app. reflexivity.
Qed.

(* ---------------------------------------------------------------- wrappers *)
Definition add_timers (a b : timers) : timers :=
  mkT (t_reset a + t_reset b) (t_start a + t_start b) (t_stop a + t_stop b).

Lemma wrun_from_erase W K iv fails h : forall st tm, wellformed W h = true ->
  fst (fst (wrun_from W K iv fails (st, tm) h)) = fst (run_from K iv fails st (erase W h)) /\
  snd (wrun_from W K iv fails (st, tm) h) = snd (run_from K iv fails st (erase W h)).
Proof.
  induction h as [|w h IH]; intros st tm Hwf; [split; reflexivity|].
  assert (Hwf' : wellformed W h = true)
    by (destruct W; [ | | reflexivity]; cbn [wellformed forallb] in *; apply andb_true_iff in Hwf; apply Hwf).
  assert (Hstep : exists o tm', erase_op W w = [o] /\
             wstep W K iv fails (st, tm) w = ((fst (step K iv fails st o), tm'), snd (step K iv fails st o))).
  { destruct w as [o|now|d now].
    - exists o. destruct W; try (eexists; split; reflexivity).
      destruct o; eexists; split; reflexivity.
    - destruct W; try (cbn [wellformed forallb is_plain andb] in Hwf; discriminate).
      eexists _, _. split; reflexivity.
    - destruct W; try (cbn [wellformed forallb is_plain andb] in Hwf; discriminate).
      eexists _, _. split; reflexivity. }
  destruct Hstep as (o & tm' & He & Hs).
  cbn [wrun_from]. rewrite Hs. cbn [fst snd]. unfold erase. cbn [flat_map]. fold (erase W h).
  rewrite He. cbn [app run_from fst snd].
  destruct (IH (fst (step K iv fails st o)) tm' Hwf') as [E1 E2]. rewrite E1, E2. split; reflexivity.
Qed.

Lemma add_timers_assoc a b c : add_timers (add_timers a b) c = add_timers a (add_timers b c).
Proof. destruct a, b, c. unfold add_timers. cbn. f_equal; lia. Qed.

Lemma count_w_cons f w h : count_w f (w :: h) = count_w f [w] + count_w f h.
Proof. unfold count_w. cbn [filter]. destruct (f w); cbn [length]; lia. Qed.

Lemma spec_timers_cons W w h : spec_timers W (w :: h) = add_timers (spec_timers W [w]) (spec_timers W h).
Proof.
  destruct W; unfold spec_timers, add_timers; try reflexivity.
  cbn [t_reset t_start t_stop]. rewrite 3 (count_w_cons _ w h). reflexivity.
Qed.

Lemma wstep_timers W K iv fails st tm w :
  snd (fst (wstep W K iv fails (st, tm) w)) = add_timers tm (spec_timers W [w]).
Proof.
  destruct tm as [a b c].
  destruct W; destruct w as [o|now|d now]; try destruct o;
    unfold add_timers, spec_timers, count_w; cbn; f_equal; lia.
Qed.

Lemma wrun_from_timers W K iv fails h : forall st tm,
  snd (fst (wrun_from W K iv fails (st, tm) h)) = add_timers tm (spec_timers W h).
Proof.
  induction h as [|w h IH]; intros st tm.
  - cbn [wrun_from fst snd]. destruct tm. destruct W; unfold add_timers, spec_timers, count_w; cbn; f_equal; lia.
  - cbn [wrun_from fst snd].
    rewrite (spec_timers_cons W w h).
    rewrite (surjective_pairing (fst (wstep W K iv fails (st, tm) w))), IH, wstep_timers.
    rewrite add_timers_assoc. reflexivity.
Qed.

Lemma wrappers_transparent : forall W K iv last0 fails h, wellformed W h = true ->
  snd (wrun W K iv last0 fails h) = snd (run K iv last0 fails (erase W h)) /\
  fst (fst (wrun W K iv last0 fails h)) = fst (run K iv last0 fails (erase W h)) /\
  snd (fst (wrun W K iv last0 fails h)) = spec_timers W h.
Proof.
  intros W K iv last0 fails h Hwf. unfold wrun, run.
  destruct (wrun_from_erase W K iv fails h (init K last0) timers0 Hwf) as [E1 E2].
  repeat split; [exact E2 | exact E1 |].
  rewrite wrun_from_timers. unfold add_timers, timers0. cbn [t_reset t_start t_stop].
  destruct (spec_timers W h); reflexivity.
Qed.
