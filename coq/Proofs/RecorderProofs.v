(* Proofs for C15: the recorder model (Model/Recorder.v) satisfies the policy of
   Model/RecorderOk.v for every call history. *)
From Coq Require Import ZArith List Bool Lia.
From FV.Model Require Import Hdr Recorder RecorderOk.
Import ListNotations.
Open Scope Z_scope.

Arguments stamp_ts : simpl never.
Arguments gate_open : simpl never.

(* ---------------------------------------------------------------- int64 *)
Lemma wrap64_range z : - two63 <= wrap64 z < two63.
Proof.
  unfold wrap64, two63, two64.
  assert (H := Z.mod_pos_bound (z + 9223372036854775808) 18446744073709551616). lia.
Qed.

Lemma wrap64_small z : - two63 <= z < two63 -> wrap64 z = z.
Proof.
  unfold wrap64, two63, two64. intros H.
  rewrite Z.mod_small; lia.
Qed.

Lemma wrap64_0 : wrap64 0 = 0.
Proof. reflexivity. Qed.

Lemma wrap64_add_l a b : wrap64 (wrap64 a + b) = wrap64 (a + b).
Proof.
  unfold wrap64, two63, two64.
  replace ((a + 9223372036854775808) mod 18446744073709551616 - 9223372036854775808 + b + 9223372036854775808)
    with ((a + 9223372036854775808) mod 18446744073709551616 + b) by lia.
  rewrite Zplus_mod_idemp_l. f_equal. f_equal. lia.
Qed.

Lemma wrap64_idem a : wrap64 (wrap64 a) = wrap64 a.
Proof. apply wrap64_small, wrap64_range. Qed.

(* ---------------------------------------------------------------- lists *)
Lemma fold_left_snoc {A B} (f : A -> B -> A) l x a : fold_left f (l ++ [x]) a = f (fold_left f l a) x.
Proof. rewrite fold_left_app. reflexivity. Qed.

Lemma lsum_app l1 l2 : lsum (l1 ++ l2) = lsum l1 + lsum l2.
Proof. unfold lsum. induction l1 as [|a l1 IH]; cbn [app fold_right]; [reflexivity | rewrite IH; lia]. Qed.

(* ---------------------------------------------------------------- the policy's folds, one step *)
Lemma pctx_snoc K iv last0 h o : pctx K iv last0 (h ++ [o]) = ctx_step K iv (pctx K iv last0 h) o.
Proof. apply fold_left_snoc. Qed.

Lemma cw_fst K iv last0 h : fst (fold_left (cw_step K iv) h (ctx0 K last0, [])) = pctx K iv last0 h.
Proof.
  unfold pctx. induction h as [|o h IH] using rev_ind; [reflexivity|].
  rewrite !fold_left_snoc. unfold cw_step at 1. cbn [fst]. rewrite IH. reflexivity.
Qed.

Lemma cwindow_snoc K iv last0 h o :
  cwindow K iv last0 (h ++ [o]) =
  if is_reset o then [] else cwindow K iv last0 h ++ [(pctx K iv last0 h, o)].
Proof.
  unfold cwindow. rewrite fold_left_snoc. unfold cw_step at 1. cbn [snd]. rewrite cw_fst. reflexivity.
Qed.

Lemma gauges_of_snoc g0 h o : gauges_of g0 (h ++ [o]) = g_step (gauges_of g0 h) o.
Proof. apply fold_left_snoc. Qed.

Lemma since_reset_snoc h o :
  since_reset (h ++ [o]) = if is_reset o then [] else since_reset h ++ [o].
Proof. unfold since_reset. rewrite fold_left_snoc. reflexivity. Qed.

Lemma cwindow_since_reset K iv last0 h : map snd (cwindow K iv last0 h) = since_reset h.
Proof.
  induction h as [|o h IH] using rev_ind; [reflexivity|].
  rewrite cwindow_snoc, since_reset_snoc. destruct (is_reset o); [reflexivity|].
  rewrite map_app, IH. reflexivity.
Qed.

(* ---------------------------------------------------------------- the model, one step *)
Lemma run_from_app K iv fails st h1 h2 :
  run_from K iv fails st (h1 ++ h2) =
  (fst (run_from K iv fails (fst (run_from K iv fails st h1)) h2),
   snd (run_from K iv fails st h1) ++ snd (run_from K iv fails (fst (run_from K iv fails st h1)) h2)).
Proof.
  revert st. induction h1 as [|o h1 IH]; intros st.
  - cbn [app run_from fst snd]. destruct (run_from K iv fails st h2); reflexivity.
  - cbn [app run_from fst snd]. rewrite IH. reflexivity.
Qed.
