(* "oracle = theorem" for C12 and C13: the executable oracles of Model/HdrOk.v and
   Model/HdrQuantOk.v accept the MODEL's own observation for every input of the
   property's domain.  The boolean the correspondence check evaluates on the
   implementation's observations is therefore the reflected form of the statements
   proved in Proofs/HdrProofs.v and Proofs/HdrQuantProofs.v. *)
From Coq Require Import ZArith List Bool Lia ZifyBool.
From Coq Require Import Sorting.Permutation Sorting.Sorted.
From FV.Model Require Import Hdr HdrOk HdrQuantOk.
From FV.Proofs Require Import HdrProofs HdrQuantProofs.
Import ListNotations.
Open Scope Z_scope.

(* two sums are in scope: HdrProofs.zsum (fold_right, used by the proofs) and
   HdrQuantOk.zsum (fold_left, used by the oracles) *)
Local Notation zsumR := HdrProofs.zsum.
Local Notation zsumL := HdrQuantOk.zsum.

(* ------------------------------------------------------------------ *)
(* C12                                                                 *)
(* ------------------------------------------------------------------ *)

Lemma c12_oracle_sound : forall lo hi s v,
  (0 <= lo /\ 1 <= hi < 2 ^ 62 /\ 1 <= s <= 5) ->
  c12_ok_v lo hi s v (model_obs_v lo hi s v) = true.
Proof.
  intros lo hi s v Hc. unfold c12_ok_v, model_obs_v. cbv zeta.
  destruct ((0 <=? v) && (v <=? hi)) eqn:Ev.
  - assert (Hv : 0 <= v <= hi) by lia.
    pose proof (hdr_accepts lo hi s v Hc Hv) as Ha.
    pose proof (hdr_in_range lo hi s v Hc Hv) as Hr.
    pose proof (hdr_width lo hi s v Hc Hv) as Hw. cbv zeta in Hw.
    destruct Hw as [W1 [W2 W3]].
    set (c := config_of lo hi s) in *.
    replace ((counts_index_for c v <? 0) || (c_len c <=? counts_index_for c v)) with false by lia.
    cbn [ov_rejected ov_total ov_min ov_max ov_q100 negb].
    rewrite W1.
    repeat (apply andb_true_intro; split); try reflexivity.
    + apply Z.leb_le. lia.
    + apply Z.leb_le. lia.
    + apply orb_true_iff. destruct W2 as [W2|W2].
      * left. apply Z.leb_le. lia.
      * right. apply Z.leb_le. exact W2.
    + apply Z.eqb_refl.
  - destruct ((counts_index_for (config_of lo hi s) v <? 0)
              || (c_len (config_of lo hi s) <=? counts_index_for (config_of lo hi s) v));
      reflexivity.
Qed.
Print Assumptions c12_oracle_sound.

Lemma c12_oracle_seq_sound : forall lo hi s vs,
  (0 <= lo /\ 1 <= hi < 2 ^ 62 /\ 1 <= s <= 5) ->
  let '(nrej, total, bars) := model_obs_seq lo hi s vs in
  c12_ok_seq (Z.of_nat (length vs)) nrej total bars = true.
Proof.
  intros lo hi s vs Hc. pose proof (hdr_count_invariant lo hi s vs Hc) as H.
  unfold model_obs_seq. destruct (record_all (new lo hi s) vs) as [h k].
  destruct H as [A [_ [B _]]]. cbv beta iota. unfold c12_ok_seq. rewrite B, A.
  apply andb_true_intro. split; apply Z.eqb_eq; lia.
Qed.
Print Assumptions c12_oracle_seq_sound.

(* ------------------------------------------------------------------ *)
(* C13: the domain check of the driver is the reflected hypothesis     *)
(* ------------------------------------------------------------------ *)

Lemma c13_valid_iff lo hi s vs :
  c13_valid lo hi s vs = true <->
  (0 <= lo /\ 1 <= hi < 2 ^ 62 /\ 1 <= s <= 5) /\ Forall (fun v => 0 <= v <= hi) vs.
Proof.
  unfold c13_valid. rewrite !andb_true_iff, forallb_forall, Forall_forall.
  split.
  - intros [[[[[A B] C] D] E] F]. split; [lia|]. intros v Hv. specialize (F v Hv). lia.
  - intros [A F]. repeat split; try lia. intros v Hv. specialize (F v Hv). lia.
Qed.

(* ------------------------------------------------------------------ *)
(* sums, sorting                                                       *)
(* ------------------------------------------------------------------ *)

Lemma zsumL_eq l : zsumL l = zsumR l.
Proof.
  unfold HdrQuantOk.zsum, HdrProofs.zsum.
  assert (H : forall l a, fold_left Z.add l a = a + fold_right Z.add 0 l).
  { induction l0 as [|x r IH]; intros a; cbn [fold_left fold_right]; [lia|]. rewrite IH. lia. }
  rewrite H. lia.
Qed.

Lemma insert_perm x l : Permutation (insert x l) (x :: l).
Proof.
  induction l as [|y r IH]; cbn [insert]; [reflexivity|].
  destruct (x <=? y); [reflexivity|].
  rewrite IH. apply perm_swap.
Qed.

Lemma isort_perm l : Permutation (isort l) l.
Proof.
  induction l as [|x r IH]; [reflexivity|].
  unfold isort in *. cbn [fold_right]. rewrite insert_perm. constructor. exact IH.
Qed.

Lemma insert_hdrel a x l : HdRel Z.le a l -> a <= x -> HdRel Z.le a (insert x l).
Proof.
  intros H Hax. destruct l as [|y r]; cbn [insert]; [constructor; exact Hax|].
  destruct (x <=? y); constructor; [exact Hax|]. inversion H; assumption.
Qed.

Lemma insert_sorted x l : Sorted Z.le l -> Sorted Z.le (insert x l).
Proof.
  induction 1 as [|y r S IH Hd]; cbn [insert].
  - repeat constructor.
  - destruct (x <=? y) eqn:E.
    + constructor; [constructor; assumption|constructor; lia].
    + constructor; [exact IH|]. apply insert_hdrel; [exact Hd|lia].
Qed.

Lemma isort_sorted l : Sorted Z.le (isort l).
Proof.
  induction l as [|x r IH]; [constructor|].
  unfold isort in *. cbn [fold_right]. apply insert_sorted. exact IH.
Qed.

Lemma combine_map_r {A B} (f : A -> B) l : combine l (map f l) = map (fun x => (x, f x)) l.
Proof. induction l as [|a l IH]; cbn [combine map]; [reflexivity|]. rewrite IH. reflexivity. Qed.

(* ------------------------------------------------------------------ *)
(* C13 1-2: quantiles                                                  *)
(* ------------------------------------------------------------------ *)

Lemma monotone_adj_cons2 k1 v1 k2 v2 r :
  monotone_adj ((k1, v1) :: (k2, v2) :: r) =
  (if k1 <=? k2 then v1 <=? v2 else true) && (if k2 <=? k1 then v2 <=? v1 else true)
  && monotone_adj ((k2, v2) :: r).
Proof. reflexivity. Qed.

Lemma monotone_adj_map (f : Z -> Z) n ranks :
  (forall k1 k2, 1 <= k1 <= k2 -> k2 <= n -> f k1 <= f k2) ->
  Forall (fun k => 1 <= k <= n) ranks ->
  monotone_adj (map (fun k => (k, f k)) ranks) = true.
Proof.
  intros Hm. induction ranks as [|k1 r IH]; intros HF; [reflexivity|].
  destruct r as [|k2 r]; [reflexivity|].
  pose proof (Forall_inv HF) as H1. pose proof (Forall_inv (Forall_inv_tail HF)) as H2.
  cbv beta in H1, H2.
  specialize (IH (Forall_inv_tail HF)).
  cbn [map] in IH |- *. rewrite monotone_adj_cons2, IH.
  assert (A : (if k1 <=? k2 then f k1 <=? f k2 else true) = true).
  { destruct (k1 <=? k2) eqn:E; [|reflexivity]. apply Z.leb_le. apply Hm; lia. }
  assert (B : (if k2 <=? k1 then f k2 <=? f k1 else true) = true).
  { destruct (k2 <=? k1) eqn:E; [|reflexivity]. apply Z.leb_le. apply Hm; lia. }
  rewrite A, B. reflexivity.
Qed.

Lemma monotone_all_map (f : Z -> Z) n ranks :
  (forall k1 k2, 1 <= k1 <= k2 -> k2 <= n -> f k1 <= f k2) ->
  Forall (fun k => 1 <= k <= n) ranks ->
  monotone_all (map (fun k => (k, f k)) ranks) = true.
Proof.
  intros Hm HF. rewrite Forall_forall in HF. unfold monotone_all.
  apply forallb_forall. intros [k1 v1] H1. apply forallb_forall. intros [k2 v2] H2.
  apply in_map_iff in H1. destruct H1 as [a [Ea Ha]]. injection Ea as <- <-.
  apply in_map_iff in H2. destruct H2 as [b [Eb Hb]]. injection Eb as <- <-.
  destruct (a <=? b) eqn:E; [|reflexivity]. apply Z.leb_le.
  pose proof (HF a Ha). pose proof (HF b Hb). apply Hm; lia.
Qed.

(* the (rank, value) pairs the model produces are accepted, for every list of ranks 1..n *)
Lemma c13_quant_sound : forall lo hi s vs ranks,
  (0 <= lo /\ 1 <= hi < 2 ^ 62 /\ 1 <= s <= 5) ->
  Forall (fun v => 0 <= v <= hi) vs ->
  Forall (fun k => 1 <= k <= Z.of_nat (length vs)) ranks ->
  c13_ok_quant lo hi s vs (combine ranks (oq_vals (model_obs_q lo hi s vs ranks))) = true.
Proof.
  intros lo hi s vs ranks Hc HF HR.
  unfold model_obs_q. cbv zeta. cbn [oq_vals].
  set (h := hist_of lo hi s vs).
  change (scan_rank (h_cfg h) (steps h)) with (fun k => value_at_rank h k).
  rewrite combine_map_r.
  assert (Hm : forall k1 k2, 1 <= k1 <= k2 -> k2 <= Z.of_nat (length vs) ->
                 value_at_rank h k1 <= value_at_rank h k2).
  { intros k1 k2 H1 H2. exact (hdrq_monotone lo hi s vs k1 k2 Hc HF H1 H2). }
  unfold c13_ok_quant. cbv zeta.
  rewrite (monotone_adj_map _ _ ranks Hm HR), (monotone_all_map _ _ ranks Hm HR).
  rewrite andb_true_r.
  replace (if zlen (map (fun x => (x, value_at_rank h x)) ranks) <=? 100 then true else true)
    with true by (destruct (_ <=? _); reflexivity).
  rewrite andb_true_r.
  apply forallb_forall. intros [k v] Hin.
  apply in_map_iff in Hin. destruct Hin as [a [Ea Ha]]. injection Ea as <- <-.
  rewrite Forall_forall in HR. pose proof (HR a Ha) as Hk. cbv beta in Hk.
  unfold zlen.
  pose proof (hdrq_rank lo hi s vs (isort vs) a Hc HF (isort_perm vs) (isort_sorted vs) Hk) as Er.
  change (fst (record_all (new lo hi s) vs)) with h in Er.
  rewrite Er, Z.eqb_refl.
  apply andb_true_intro. split; [|reflexivity].
  apply andb_true_intro. split; apply Z.leb_le; lia.
Qed.
Print Assumptions c13_quant_sound.

(* ------------------------------------------------------------------ *)
(* C13 3: TotalCount, Min, Max, Mean                                   *)
(* ------------------------------------------------------------------ *)

(* integer part of the mean clause: the numerator the model computes is within
   T = sum (size_of_range v / 2) of the exact sum of the values.  (The bound per value,
   |median_equiv v - v| <= size_of_range v / 2, follows from the definition of
   median_equiv, hdr_in_range and the first clause of hdr_width.) *)
Lemma c13_mean_num_bound : forall lo hi s vs,
  (0 <= lo /\ 1 <= hi < 2 ^ 62 /\ 1 <= s <= 5) ->
  Forall (fun v => 0 <= v <= hi) vs ->
  let c := config_of lo hi s in
  Z.abs (mean_num (hist_of lo hi s vs) - zsumL vs)
  <= zsumL (map (fun v => size_of_range c v / 2) vs).
Proof.
  intros lo hi s vs Hc HF c.
  destruct (config_geom lo hi s Hc) as [G _]. fold c in G.
  pose proof (rep_hist_of lo hi s vs Hc HF) as Hr.
  rewrite (mean_num_spec c hi _ vs G Hr HF : mean_num (hist_of lo hi s vs) = _).
  rewrite !zsumL_eq.
  assert (Hpt : forall v, In v vs ->
            median_equiv c v <= v + size_of_range c v / 2 /\
            v <= median_equiv c v + size_of_range c v / 2).
  { intros v Hv. rewrite Forall_forall in HF. pose proof (HF v Hv) as Hv'. cbv beta in Hv'.
    pose proof (hdr_in_range lo hi s v Hc Hv') as Hr'. fold c in Hr'.
    destruct (hdr_width lo hi s v Hc Hv') as [W1 _]. fold c in W1.
    unfold median_equiv.
    pose proof (Z.div_mod (size_of_range c v) 2 ltac:(lia)) as Hd.
    pose proof (Z.mod_pos_bound (size_of_range c v) 2 ltac:(lia)) as Hm.
    lia. }
  pose proof (zsum_map_le (median_equiv c) (fun v => v + size_of_range c v / 2) vs
                (fun v Hv => proj1 (Hpt v Hv))) as U.
  pose proof (zsum_map_le (fun v => v) (fun v => median_equiv c v + size_of_range c v / 2) vs
                (fun v Hv => proj2 (Hpt v Hv))) as L.
  rewrite (zsum_map_add (fun v => v) (fun v => size_of_range c v / 2)) in U.
  rewrite (zsum_map_add (median_equiv c) (fun v => size_of_range c v / 2)) in L.
  rewrite map_id in U, L. lia.
Qed.
Print Assumptions c13_mean_num_bound.

(* Min, Max, TotalCount exactly; the mean clause for every float mm * 2^me that
   approximates the model's exact mean mean_num / total with relative error <= 2^-52
   (the hypothesis, scaled by total * 2^k * 2^52, k = max 0 (-me)) *)
Lemma c13_stats_sound : forall lo hi s vs mm me,
  (0 <= lo /\ 1 <= hi < 2 ^ 62 /\ 1 <= s <= 5) ->
  Forall (fun v => 0 <= v <= hi) vs -> vs <> [] ->
  let o := model_obs_q lo hi s vs [] in
  let k := if me <? 0 then - me else 0 in
  2 ^ 52 * Z.abs (mm * 2 ^ (me + k) * oq_total o - oq_mean_num o * 2 ^ k) <= oq_mean_num o * 2 ^ k ->
  c13_ok_stats lo hi s vs (oq_total o) (oq_min o) (oq_max o) mm me = true.
Proof.
  intros lo hi s vs mm me Hc HF Hne o k Hfl.
  unfold o, model_obs_q in *. cbv zeta in *. cbn [oq_total oq_min oq_max oq_mean_num] in *.
  set (h := hist_of lo hi s vs) in *.
  destruct (hdrq_min_max_mean lo hi s vs (isort vs) Hc HF Hne (isort_perm vs) (isort_sorted vs))
    as [Emin [Emax _]].
  change (fst (record_all (new lo hi s) vs)) with h in Emin, Emax.
  destruct (rep_hist_of lo hi s vs Hc HF) as [_ [Et _]].
  change (fst (record_all (new lo hi s) vs)) with h in Et.
  pose proof (c13_mean_num_bound lo hi s vs Hc HF) as Hb. cbv zeta in Hb. fold h in Hb.
  unfold c13_ok_stats. cbv zeta. fold k.
  rewrite Emin, Emax, Et. unfold zlen. rewrite !Z.eqb_refl. cbn [andb].
  rewrite Et in Hfl.
  apply Z.leb_le.
  set (S := zsumL vs) in *.
  set (T := zsumL (map (fun v => size_of_range (config_of lo hi s) v / 2) vs)) in *.
  set (M := mean_num h) in *.
  set (n := Z.of_nat (length vs)) in *.
  assert (Hk : 0 <= k) by (unfold k; destruct (me <? 0) eqn:E; lia).
  assert (HP : 0 < 2 ^ k) by (apply Z.pow_pos_nonneg; lia).
  set (P := 2 ^ k) in *. set (A := mm * 2 ^ (me + k) * n) in *.
  clearbody S T M n P A.
  change (2 ^ 52) with 4503599627370496 in *.
  assert (B1 : M * P <= (S + T) * P) by nia.
  assert (B2 : - (T * P) <= M * P - S * P <= T * P) by nia.
  lia.
Qed.
Print Assumptions c13_stats_sound.

(* ------------------------------------------------------------------ *)
(* C13 7: Export / Import                                              *)
(* ------------------------------------------------------------------ *)

Lemma c13_snapshot_sound : forall lo hi s vs n,
  (0 <= lo /\ 1 <= hi < 2 ^ 62 /\ 1 <= s <= 5) ->
  Forall (fun v => 0 <= v <= hi) vs ->
  c13_ok_snapshot vs (repeat (model_snapshot lo hi s vs) n) = true.
Proof.
  intros lo hi s vs n Hc HF. unfold c13_ok_snapshot. apply forallb_forall.
  intros x Hx. apply repeat_spec in Hx. subst x. unfold model_snapshot. cbv zeta.
  destruct (hdrq_export_import lo hi s vs Hc HF) as [[_ [Et _]] Eq].
  destruct (rep_hist_of lo hi s vs Hc HF) as [_ [El _]].
  change (fst (record_all (new lo hi s) vs)) with (hist_of lo hi s vs) in *.
  rewrite Eq, Et, El. unfold zlen. rewrite Z.eqb_refl. reflexivity.
Qed.
Print Assumptions c13_snapshot_sound.

(* ------------------------------------------------------------------ *)
(* sparse counts: the model's [sparse] and the oracle's [expect_counts] *)
(* ------------------------------------------------------------------ *)

Definition sp (f : Z -> Z) (l : list Z) : list (Z * Z) :=
  filter (fun p => negb (snd p =? 0)) (map (fun i => (i, f i)) l).

Lemma sp_cons f j r :
  sp f (j :: r) = if f j =? 0 then sp f r else (j, f j) :: sp f r.
Proof. unfold sp. cbn [map filter snd]. destruct (f j =? 0); reflexivity. Qed.

Lemma sp_ext f g l : (forall x, In x l -> f x = g x) -> sp f l = sp g l.
Proof.
  intros H. unfold sp. f_equal. apply map_ext_in. intros x Hx. rewrite (H x Hx). reflexivity.
Qed.

Lemma sp_zero f l : (forall x, In x l -> f x = 0) -> sp f l = [].
Proof.
  induction l as [|j r IH]; intros H; [reflexivity|].
  rewrite sp_cons, (H j (or_introl eq_refl)), Z.eqb_refl. apply IH.
  intros x Hx. apply H. right. exact Hx.
Qed.

Lemma sp_keys f l p : In p (sp f l) -> In (fst p) l.
Proof.
  unfold sp. intros H. apply filter_In in H. destruct H as [H _].
  apply in_map_iff in H. destruct H as [x [<- Hx]]. exact Hx.
Qed.

Lemma bump_below i n l : (forall p, In p l -> i < fst p) -> bump i n l = (i, n) :: l.
Proof.
  intros H. destruct l as [|[j m] r]; [reflexivity|]. cbn [bump].
  pose proof (H (j, m) (or_introl eq_refl)) as Hj. cbn [fst] in Hj.
  replace (i <? j) with true by lia. reflexivity.
Qed.

Lemma bump_sp : forall l, StronglySorted Z.lt l -> forall i d f,
  In i l -> 0 < d -> (forall j, In j l -> 0 <= f j) ->
  bump i d (sp f l) = sp (upd f i d) l.
Proof.
  induction 1 as [|j r SS IH Hall]; intros i d f Hin Hd Hnn; [destruct Hin|].
  rewrite Forall_forall in Hall.
  assert (Hnn' : forall x, In x r -> 0 <= f x) by (intros x Hx; apply Hnn; right; exact Hx).
  pose proof (Hnn j (or_introl eq_refl)) as Hj0.
  rewrite !sp_cons.
  destruct (Z.eq_dec i j) as [->|Nij].
  - assert (Er : sp (upd f j d) r = sp f r).
    { apply sp_ext. intros x Hx. unfold upd. specialize (Hall x Hx).
      replace (x =? j) with false by lia. reflexivity. }
    assert (Eu : upd f j d j = f j + d) by (unfold upd; rewrite Z.eqb_refl; reflexivity).
    rewrite Er, !Eu.
    replace (f j + d =? 0) with false by lia.
    destruct (f j =? 0) eqn:E0.
    + rewrite bump_below.
      * apply Z.eqb_eq in E0. rewrite E0. reflexivity.
      * intros p Hp. apply sp_keys in Hp. exact (Hall _ Hp).
    + cbn [bump]. replace (j <? j) with false by lia. rewrite Z.eqb_refl. reflexivity.
  - assert (Hir : In i r) by (destruct Hin as [E|H]; [congruence|exact H]).
    pose proof (Hall i Hir) as Hji.
    assert (Eu : upd f i d j = f j) by (unfold upd; replace (j =? i) with false by lia; reflexivity).
    rewrite !Eu.
    destruct (f j =? 0) eqn:E0.
    + apply IH; assumption.
    + cbn [bump]. replace (i <? j) with false by lia. replace (i =? j) with false by lia.
      f_equal. apply IH; assumption.
Qed.

Lemma zrange_sorted a n : StronglySorted Z.lt (zrange a n).
Proof.
  unfold zrange. generalize (Z.to_nat n) as m. generalize 0%nat as st.
  intros st m. revert st. induction m as [|m IH]; intros st; cbn [seq map]; constructor.
  - apply IH.
  - apply Forall_forall. intros x Hx. apply in_map_iff in Hx. destruct Hx as [k [<- Hk]].
    apply in_seq in Hk. lia.
Qed.

Lemma sparse_sp h : sparse h = sp (h_counts h) (zrange 0 (c_len (h_cfg h))).
Proof. reflexivity. Qed.

(* direct histogramming = the sparse form of the occurrence counts, for ANY values
   (those the geometry cannot index do not contribute) *)
Lemma expect_from_spec c : forall vs a,
  expect_counts_from c (sp (occ c a) (zrange 0 (c_len c))) vs
  = sp (occ c (a ++ vs)) (zrange 0 (c_len c)).
Proof.
  unfold expect_counts_from.
  induction vs as [|v r IH]; intros a; cbn [fold_left].
  - rewrite app_nil_r. reflexivity.
  - cbv zeta.
    replace (a ++ v :: r) with ((a ++ [v]) ++ r) by (rewrite <- app_assoc; reflexivity).
    rewrite <- IH. f_equal.
    destruct (in_counts c (counts_index_for c v)) eqn:E; unfold in_counts in E.
    + rewrite bump_sp.
      * apply sp_ext. intros x _. rewrite occ_app, occ_cons, occ_nil. unfold upd, ind.
        rewrite (Z.eqb_sym x). destruct (counts_index_for c v =? x); lia.
      * apply zrange_sorted.
      * apply In_zrange. lia.
      * lia.
      * intros j _. apply occ_nonneg.
    + apply sp_ext. intros x Hx. apply In_zrange in Hx.
      rewrite occ_app, occ_cons, occ_nil. unfold ind.
      replace (counts_index_for c v =? x) with false by lia. lia.
Qed.

Lemma expect_spec c vs : expect_counts c vs = sp (occ c vs) (zrange 0 (c_len c)).
Proof.
  unfold expect_counts.
  rewrite <- (sp_zero (occ c []) (zrange 0 (c_len c))) by (intros x _; apply occ_nil).
  apply (expect_from_spec c vs []).
Qed.

Lemma eq_pairs_refl l : eq_pairs l l = true.
Proof.
  induction l as [|[i n] r IH]; cbn [eq_pairs]; [reflexivity|]. rewrite !Z.eqb_refl, IH. reflexivity.
Qed.

Lemma eq_zs_refl l : eq_zs l l = true.
Proof.
  induction l as [|x r IH]; cbn [eq_zs]; [reflexivity|]. rewrite Z.eqb_refl, IH. reflexivity.
Qed.

Lemma sparse_expect c h vs : h_cfg h = c ->
  (forall i, 0 <= i < c_len c -> h_counts h i = occ c vs i) ->
  sparse h = expect_counts c vs.
Proof.
  intros Hc Hcnt. rewrite sparse_sp, expect_spec, Hc. apply sp_ext.
  intros x Hx. apply In_zrange in Hx. apply Hcnt. lia.
Qed.

(* ------------------------------------------------------------------ *)
(* C13 6: windowed histogram                                           *)
(* ------------------------------------------------------------------ *)

(* the reference of Props/C13.v (append, oldest value first) on the oracle's operations *)
Definition wspec_step (n : nat) (ws : list (list Z)) (o : wop) : list (list Z) :=
  match o, ws with
  | WRec v, cur :: r => (cur ++ [v]) :: r
  | WRec _, [] => []
  | WRot, _ => firstn n ([] :: ws)
  end.

Lemma win_step_rev n ws o : win_step n (map (@rev Z) ws) o = map (@rev Z) (wspec_step n ws o).
Proof.
  destruct o as [v|]; cbn [win_step wspec_step].
  - destruct ws as [|cur r]; cbn [map]; [reflexivity|]. rewrite rev_app_distr. reflexivity.
  - change ([] :: map (@rev Z) ws) with (map (@rev Z) ([] :: ws)). apply firstn_map.
Qed.

Lemma win_fold_rev n ops : forall ws,
  fold_left (win_step n) ops (map (@rev Z) ws) = map (@rev Z) (fold_left (wspec_step n) ops ws).
Proof.
  induction ops as [|o ops IH]; intros ws; cbn [fold_left]; [reflexivity|].
  rewrite win_step_rev. apply IH.
Qed.

Lemma occ_concat_map_rev c ws i : occ c (concat (map (@rev Z) ws)) i = occ c (concat (rev ws)) i.
Proof.
  rewrite !occ_concat, map_map, map_rev, zsum_rev.
  apply zsum_map_ext_in. intros l _. apply occ_perm. symmetry. apply Permutation_rev.
Qed.

Lemma length_concat_map_rev (ws : list (list Z)) :
  Z.of_nat (length (concat (map (@rev Z) ws))) = Z.of_nat (length (concat (rev ws))).
Proof.
  rewrite !length_concat_Z, map_map, map_rev, zsum_rev.
  apply zsum_map_ext_in. intros l _. rewrite rev_length. reflexivity.
Qed.

Lemma c13_window_sound : forall n lo hi s ops,
  (1 <= n)%nat -> (0 <= lo /\ 1 <= hi < 2 ^ 62 /\ 1 <= s <= 5) ->
  Forall (fun o => match o with WRec v => 0 <= v <= hi | WRot => True end) ops ->
  let '(total, counts) := model_window n lo hi s ops in
  c13_ok_window n lo hi s ops total counts = true.
Proof.
  intros n lo hi s ops Hn Hc Hops. unfold model_window. cbv zeta.
  set (m := w_merge (fold_left w_apply ops (new_windowed n lo hi s))).
  destruct (hdrq_window_gen wop (fun o => match o with WRec v => Some v | WRot => None end)
              w_apply (wspec_step n) n lo hi s ops) as [Ecfg [Etot Ecnt]]; auto.
  { intros w o; destruct o; reflexivity. }
  { intros ws o; destruct o; destruct ws; reflexivity. }
  { eapply Forall_impl; [|exact Hops]. intros o; destruct o; auto. }
  fold m in Ecfg, Etot, Ecnt.
  set (ws := fold_left (wspec_step n) ops [[]]) in *.
  assert (HFc : Forall (fun v => 0 <= v <= hi) (concat (rev ws))).
  { (* every window holds in-range values *)
    assert (Hgen : forall ops ws0, Forall (Forall (fun v => 0 <= v <= hi)) ws0 ->
              Forall (fun o => match o with WRec v => 0 <= v <= hi | WRot => True end) ops ->
              Forall (Forall (fun v => 0 <= v <= hi)) (fold_left (wspec_step n) ops ws0)).
    { clear. induction ops as [|o ops IH]; intros ws0 H0 HF; cbn [fold_left]; [exact H0|].
      apply IH; [|exact (Forall_inv_tail HF)]. pose proof (Forall_inv HF) as Ho.
      destruct o as [v|]; cbn [wspec_step].
      - destruct ws0 as [|cur r]; [constructor|].
        inversion H0; subst. constructor; [|assumption].
        apply Forall_app. split; [assumption|]. constructor; [exact Ho|constructor].
      - apply Forall_firstn_of. constructor; [constructor|exact H0]. }
    apply Forall_concat_of. apply Forall_rev. apply Hgen; [|exact Hops].
    constructor; [constructor|constructor]. }
  destruct (rep_hist_of lo hi s _ Hc HFc) as [[Hcfg2 _] [Ht2 Hcnt2]].
  unfold c13_ok_window. cbv zeta.
  change [[]] with (map (@rev Z) [[]]). rewrite win_fold_rev. fold ws.
  apply andb_true_intro. split.
  - apply Z.eqb_eq. unfold zlen. rewrite length_concat_map_rev, Etot, Ht2. reflexivity.
  - rewrite (sparse_expect (config_of lo hi s) m (concat (map (@rev Z) ws))).
    + apply eq_pairs_refl.
    + rewrite Ecfg. exact Hcfg2.
    + intros i Hi. rewrite occ_concat_map_rev, <- Hcnt2. apply Ecnt.
      rewrite Ecfg, Hcfg2. exact Hi.
Qed.
Print Assumptions c13_window_sound.

(* ------------------------------------------------------------------ *)
(* C13 4-5: merge, any pair of geometries, chains of merges            *)
(* ------------------------------------------------------------------ *)

(* the value a source cell hands over, and whether the target can index it *)
Definition tval (cb : cfg) (bs : Z * Z) : Z := value_from_index cb (fst bs) (snd bs).
Definition tidx (ct cb : cfg) (bs : Z * Z) : Z := counts_index_for ct (tval cb bs).
Definition tacc (ct cb : cfg) (bs : Z * Z) : bool := in_counts ct (tidx ct cb bs).

Lemma merge_fold_any cb ct b : hinv cb b -> forall cs k acc d,
  hinv ct acc -> k + zsumR (map (cell_count b) cs) = h_total b ->
  exists m,
    fold_left merge_step (iterate b cs k) (acc, d)
    = (m, d + zsumR (map (fun bs => if tacc ct cb bs then 0 else cell_count b bs) cs)) /\
    hinv ct m /\
    h_total m = h_total acc
                + zsumR (map (fun bs => if tacc ct cb bs then cell_count b bs else 0) cs) /\
    forall i, h_counts m i = h_counts acc i
      + zsumR (map (fun bs => if tacc ct cb bs && (tidx ct cb bs =? i)
                              then cell_count b bs else 0) cs).
Proof.
  intros Hb. pose proof Hb as [Hcb [Hnnb Htb]].
  induction cs as [|[b0 s0] r IH]; intros k acc d Hacc Hsum.
  - cbn [iterate fold_left map]. rewrite !zsum_nil. exists acc.
    split; [f_equal; lia|]. split; [exact Hacc|]. split; [lia|]. intros i. lia.
  - cbn [map] in Hsum. rewrite zsum_cons in Hsum.
    assert (Hr0 : 0 <= zsumR (map (cell_count b) r)).
    { apply zsum_map_nonneg. intros x. apply Hnnb. }
    assert (Hc0 : 0 <= cell_count b (b0, s0)) by apply Hnnb.
    cbn [iterate]. destruct (h_total b <=? k) eqn:E.
    + (* the iterator has stopped: every remaining cell is empty *)
      assert (Hz : forall x, In x ((b0, s0) :: r) -> cell_count b x = 0).
      { apply (zsum_map_all_zero (cell_count b) ((b0, s0) :: r)).
        - intros y _. apply Hnnb.
        - cbn [map]. rewrite zsum_cons. lia. }
      cbn [fold_left]. exists acc.
      split; [f_equal; rewrite zsum_map_zero_in; [lia|]|].
      { intros x Hx. rewrite (Hz x Hx). destruct (tacc ct cb x); reflexivity. }
      split; [exact Hacc|]. split.
      * rewrite zsum_map_zero_in; [lia|].
        intros x Hx. rewrite (Hz x Hx). destruct (tacc ct cb x); reflexivity.
      * intros i. rewrite zsum_map_zero_in; [lia|].
        intros x Hx. rewrite (Hz x Hx). destruct (_ && _); reflexivity.
    + cbn [fold_left]. rewrite merge_step_eq. cbn [st_count_at st_value_from].
      change (h_counts b (counts_index (h_cfg b) b0 s0)) with (cell_count b (b0, s0)).
      rewrite Hcb.
      change (value_from_index cb b0 s0) with (tval cb (b0, s0)).
      cbn [map]. rewrite !zsum_cons.
      destruct (cell_count b (b0, s0) =? 0) eqn:E0.
      * apply Z.eqb_eq in E0.
        destruct (IH (k + cell_count b (b0, s0)) acc d Hacc ltac:(lia)) as [m [Em [Hm [Htm Hcm]]]].
        exists m.
        split; [rewrite Em; f_equal; destruct (tacc ct cb (b0, s0)); lia|].
        split; [exact Hm|]. split.
        -- rewrite Htm. destruct (tacc ct cb (b0, s0)); lia.
        -- intros i. rewrite zsum_cons, Hcm. destruct (_ && _); lia.
      * destruct (tacc ct cb (b0, s0)) eqn:Et.
        -- (* the target indexes the representative *)
           assert (Hrange : 0 <= counts_index_for ct (tval cb (b0, s0)) < c_len ct).
           { unfold tacc, in_counts, tidx in Et. lia. }
           destruct (record_values_some ct acc (tval cb (b0, s0)) (cell_count b (b0, s0)) Hacc Hc0 Hrange)
             as [acc' [Es [Hacc' [Htacc' Hcacc']]]].
           rewrite Es.
           destruct (IH (k + cell_count b (b0, s0)) acc' d Hacc' ltac:(lia)) as [m [Em [Hm [Htm Hcm]]]].
           exists m. split; [rewrite Em; f_equal; lia|].
           split; [exact Hm|]. split; [lia|].
           intros i. rewrite zsum_cons, Hcm, Hcacc'. cbn [andb]. unfold tidx.
           destruct (counts_index_for ct (tval cb (b0, s0)) =? i); lia.
        -- (* it does not: the whole cell is dropped *)
           assert (En : record_values acc (tval cb (b0, s0)) (cell_count b (b0, s0)) = None).
           { unfold record_values. cbv zeta. destruct Hacc as [Hct _]. rewrite Hct.
             unfold tacc, in_counts, tidx in Et.
             replace ((counts_index_for ct (tval cb (b0, s0)) <? 0)
                      || (c_len ct <=? counts_index_for ct (tval cb (b0, s0)))) with true by lia.
             reflexivity. }
           rewrite En.
           destruct (IH (k + cell_count b (b0, s0)) acc (d + cell_count b (b0, s0)) Hacc ltac:(lia))
             as [m [Em [Hm [Htm Hcm]]]].
           exists m. split; [rewrite Em; f_equal; lia|].
           split; [exact Hm|]. split; [lia|].
           intros i. rewrite zsum_cons, Hcm. cbn [andb]. lia.
Qed.

(* sum over the cells of per-cell occurrence counts = sum over the values *)
Lemma cells_sum_swap c hi vs (g : Z * Z -> Z) : geom c hi -> Forall (fun v => 0 <= v <= hi) vs ->
  zsumR (map (fun bs => occ c vs (cell_idx c bs) * g bs) (cells c))
  = zsumR (map (fun v => g (bucket_index c v, sub_bucket_index c v (bucket_index c v))) vs).
Proof.
  intros G. induction vs as [|v r IH]; intros HF.
  - cbn [map]. rewrite zsum_nil. apply zsum_map_zero_in. intros x _. reflexivity.
  - cbn [map]. rewrite zsum_cons. rewrite <- (IH (Forall_inv_tail HF)).
    pose proof (Forall_inv HF) as Hv. cbv beta in Hv.
    rewrite (zsum_map_ext_in _ (fun bs => ind c (cell_idx c bs) v * g bs
                                          + occ c r (cell_idx c bs) * g bs)).
    2:{ intros bs _. rewrite occ_cons. lia. }
    rewrite zsum_map_add. f_equal.
    set (x := (bucket_index c v, sub_bucket_index c v (bucket_index c v))).
    assert (Ex : cell_idx c x = counts_index_for c v) by reflexivity.
    rewrite (zsum_map_ext_in _ (fun y => if cell_idx c y =? cell_idx c x then g y else 0)).
    2:{ intros y _. unfold ind. rewrite Ex, (Z.eqb_sym (cell_idx c y)).
        destruct (counts_index_for c v =? cell_idx c y); lia. }
    apply (zsum_pick_in (cell_idx c) g (cells c) x).
    + exact (cells_NoDup c hi G).
    + exact (value_in_cells c hi v G Hv).
Qed.

Lemma zsum_indicator {A} (p : A -> bool) l :
  zsumR (map (fun x => if p x then 1 else 0) l) = Z.of_nat (length (filter p l)).
Proof.
  induction l as [|a l IH]; cbn [map filter]; [reflexivity|].
  rewrite zsum_cons, IH. destruct (p a); cbn [length]; lia.
Qed.

(* one Merge of a histogram of any geometry into a well-formed target *)
Lemma merge_any cb hib ct b vb acc : geom cb hib -> rep cb b vb ->
  Forall (fun v => 0 <= v <= hib) vb -> hinv ct acc ->
  let rs := map (lowest_equiv cb) vb in
  exists m, merge acc b = (m, rejected_by ct rs) /\ hinv ct m /\
    h_total m + rejected_by ct rs = h_total acc + Z.of_nat (length vb) /\
    forall i, 0 <= i < c_len ct -> h_counts m i = h_counts acc i + occ ct rs i.
Proof.
  intros G [Hb [Htb Hcntb]] HF Hacc rs. pose proof Hb as [Hcb [Hnnb Hsumb]].
  assert (Hcc : forall bs, cell_count b bs = occ cb vb (cell_idx cb bs)).
  { intros bs. unfold cell_count, cell_idx. rewrite Hcb. apply Hcntb. }
  assert (Hall : zsumR (map (cell_count b) (cells cb)) = h_total b).
  { rewrite (cell_count_map cb hib b G Hcb). symmetry. exact Hsumb. }
  rewrite merge_unfold. unfold steps. rewrite Hcb.
  destruct (merge_fold_any cb ct b Hb (cells cb) 0 acc 0 Hacc ltac:(lia)) as [m [Em [Hm [Htm Hcm]]]].
  (* dropped *)
  assert (Ed : zsumR (map (fun bs => if tacc ct cb bs then 0 else cell_count b bs) (cells cb))
               = rejected_by ct rs).
  { rewrite (zsum_map_ext_in _ (fun bs => occ cb vb (cell_idx cb bs) * (if tacc ct cb bs then 0 else 1))).
    2:{ intros bs _. rewrite Hcc. destruct (tacc ct cb bs); lia. }
    rewrite (cells_sum_swap cb hib vb _ G HF).
    unfold rejected_by, zlen, rs.
    rewrite <- zsum_indicator, map_map. apply zsum_map_ext_in. intros v _.
    unfold tacc, tidx, tval. cbn [fst snd].
    change (value_from_index cb (bucket_index cb v) (sub_bucket_index cb v (bucket_index cb v)))
      with (lowest_equiv cb v).
    destruct (in_counts ct (counts_index_for ct (lowest_equiv cb v))); reflexivity. }
  (* accepted + dropped = everything *)
  assert (Ea : zsumR (map (fun bs => if tacc ct cb bs then cell_count b bs else 0) (cells cb))
               + rejected_by ct rs = Z.of_nat (length vb)).
  { rewrite <- Ed, <- zsum_map_add, <- Htb, <- Hall. apply zsum_map_ext_in. intros bs _.
    destruct (tacc ct cb bs); lia. }
  exists m. split; [rewrite Em, Ed; f_equal|].
  split; [exact Hm|]. split; [lia|].
  intros i Hi. rewrite Hcm. f_equal.
  rewrite (zsum_map_ext_in _ (fun bs => occ cb vb (cell_idx cb bs)
             * (if tacc ct cb bs && (tidx ct cb bs =? i) then 1 else 0))).
  2:{ intros bs _. rewrite Hcc. destruct (_ && _); lia. }
  rewrite (cells_sum_swap cb hib vb _ G HF).
  unfold occ, rs. rewrite map_map. apply zsum_map_ext_in. intros v _.
  unfold tacc, tidx, tval, ind, in_counts. cbn [fst snd].
  change (value_from_index cb (bucket_index cb v) (sub_bucket_index cb v (bucket_index cb v)))
    with (lowest_equiv cb v).
  destruct (counts_index_for ct (lowest_equiv cb v) =? i) eqn:E.
  - replace ((0 <=? counts_index_for ct (lowest_equiv cb v))
             && (counts_index_for ct (lowest_equiv cb v) <? c_len ct)) with true by lia.
    reflexivity.
  - rewrite andb_false_r. reflexivity.
Qed.

(* the domain of an operand: what the driver checks with op_valid *)
Definition op_ok (o : operand) : Prop :=
  (0 <= op_lo o /\ 1 <= op_hi o < 2 ^ 62 /\ 1 <= op_s o <= 5) /\
  Forall (fun v => 0 <= v <= op_hi o) (op_vs o).

Lemma op_valid_iff o : op_valid o = true <-> op_ok o.
Proof. apply c13_valid_iff. Qed.

Lemma op_rep o : op_ok o -> geom (op_cfg o) (op_hi o) /\ rep (op_cfg o) (op_hist o) (op_vs o).
Proof.
  intros [Hc HF]. destruct (config_geom _ _ _ Hc) as [G _].
  split; [exact G|]. exact (rep_hist_of _ _ _ _ Hc HF).
Qed.

Definition mm_step : hist * list Z -> operand -> hist * list Z :=
  fun '(acc, ds) o => let '(h', d) := merge acc (op_hist o) in (h', ds ++ [d]).

Definition rej (ct : cfg) (o : operand) : Z := rejected_by ct (reps o).

Lemma merge_chain ct : forall srcs acc ds L,
  Forall op_ok srcs -> hinv ct acc ->
  (forall i, 0 <= i < c_len ct -> h_counts acc i = occ ct L i) ->
  let r := fold_left mm_step srcs (acc, ds) in
  snd r = ds ++ map (rej ct) srcs /\ hinv ct (fst r) /\
  h_total (fst r) + zsumR (map (rej ct) srcs)
  = h_total acc + zsumR (map (fun o => zlen (op_vs o)) srcs) /\
  forall i, 0 <= i < c_len ct -> h_counts (fst r) i = occ ct (L ++ concat (map reps srcs)) i.
Proof.
  induction srcs as [|o srcs IH]; intros acc ds L HF Hacc Hcnt r.
  - unfold r. cbn [fold_left map concat fst snd]. rewrite !app_nil_r, !zsum_nil.
    split; [reflexivity|]. split; [exact Hacc|]. split; [lia|exact Hcnt].
  - destruct (op_rep o (Forall_inv HF)) as [G Hr].
    destruct (merge_any (op_cfg o) (op_hi o) ct (op_hist o) (op_vs o) acc G Hr
                (proj2 (Forall_inv HF)) Hacc) as [m [Em [Hm [Htm Hcm]]]].
    change (map (lowest_equiv (op_cfg o)) (op_vs o)) with (reps o) in Em, Htm, Hcm.
    fold (rej ct o) in Em, Htm.
    assert (Er : r = fold_left mm_step srcs (m, ds ++ [rej ct o])).
    { unfold r. cbn [fold_left]. unfold mm_step at 2. rewrite Em. reflexivity. }
    destruct (IH m (ds ++ [rej ct o]) (L ++ reps o) (Forall_inv_tail HF) Hm) as [A [B [C D]]].
    { intros i Hi. rewrite (Hcm i Hi), (Hcnt i Hi), occ_app. reflexivity. }
    rewrite Er. cbn [map concat]. rewrite !zsum_cons.
    split; [rewrite A, <- app_assoc; reflexivity|].
    split; [exact B|]. split.
    + unfold zlen at 1. lia.
    + intros i Hi. rewrite (D i Hi), <- app_assoc. reflexivity.
Qed.

Lemma same_geom_eq a b : same_geom a b = true -> a = b.
Proof.
  destruct a as [a0 a1 a2 a3 a4 a5 a6 a7 a8 a9], b as [b0 b1 b2 b3 b4 b5 b6 b7 b8 b9].
  unfold same_geom.
  cbn [c_lo c_hi c_sf c_unit c_hm c_hc c_mask c_sbc c_bc c_len].
  rewrite !andb_true_iff, !Z.eqb_eq. intros H.
  destruct H as [[[[[[[[[? ?] ?] ?] ?] ?] ?] ?] ?] ?]. subst. reflexivity.
Qed.

Lemma filter_none {A} (p : A -> bool) l : (forall x, In x l -> p x = false) -> filter p l = [].
Proof.
  induction l as [|a l IH]; intros H; cbn [filter]; [reflexivity|].
  rewrite (H a (or_introl eq_refl)). apply IH. intros x Hx. apply H. right. exact Hx.
Qed.

(* equal geometry: every representative is indexed, at the index of the value itself *)
Lemma same_geom_reps ct o : op_ok o -> op_cfg o = ct ->
  rej ct o = 0 /\ forall i, occ ct (reps o) i = occ ct (op_vs o) i.
Proof.
  intros Hok <-. destruct (op_rep o Hok) as [G _]. destruct Hok as [_ HF].
  rewrite Forall_forall in HF. split.
  - unfold rej, rejected_by, zlen, reps.
    rewrite filter_none; [reflexivity|].
    intros x Hx. apply in_map_iff in Hx. destruct Hx as [v [<- Hv]].
    destruct (lowest_range (op_cfg o) (op_hi o) v G (HF v Hv)) as [Hr _].
    pose proof (accepts_gen (op_cfg o) (op_hi o) _ G Hr) as Ha.
    unfold in_counts. lia.
  - intros i. unfold occ, reps. rewrite map_map. apply zsum_map_ext_in. intros v Hv.
    destruct (lowest_range (op_cfg o) (op_hi o) v G (HF v Hv)) as [_ E].
    unfold ind. rewrite E. reflexivity.
Qed.

Lemma c13_merge_sound : forall t srcs,
  op_ok t -> Forall op_ok srcs ->
  let '(ds, total, counts) := model_merge t srcs in
  c13_ok_merge t srcs ds total counts = true.
Proof.
  intros t srcs Ht Hs. unfold model_merge.
  change (fold_left _ srcs (op_hist t, [])) with (fold_left mm_step srcs (op_hist t, [])).
  destruct (op_rep t Ht) as [Gt [Hinv [Etot Ecnt]]].
  set (ct := op_cfg t) in *.
  destruct (merge_chain ct srcs (op_hist t) [] (op_vs t) Hs Hinv (fun i _ => Ecnt i))
    as [A [B [C D]]].
  destruct (fold_left mm_step srcs (op_hist t, [])) as [h ds]. cbn [fst snd] in A, B, C, D.
  cbn [app] in A. subst ds. cbv beta iota.
  assert (Hcfg : h_cfg h = ct) by (destruct B as [X _]; exact X).
  unfold c13_ok_merge. cbv zeta. fold ct.
  assert (E6 : eq_pairs (sparse h) (expect_counts ct (op_vs t ++ concat (map reps srcs))) = true).
  { rewrite (sparse_expect ct h _ Hcfg D). apply eq_pairs_refl. }
  assert (E5 : eq_zs (map (rej ct) srcs) (map (fun o => rejected_by ct (reps o)) srcs) = true)
    by apply eq_zs_refl.
  assert (E1 : forallb (fun d => 0 <=? d) (map (rej ct) srcs) = true).
  { apply forallb_forall. intros d Hd. apply in_map_iff in Hd. destruct Hd as [o [<- _]].
    unfold rej, rejected_by, zlen. lia. }
  assert (E2 : (zlen (map (rej ct) srcs) =? zlen srcs) = true).
  { unfold zlen. rewrite map_length. apply Z.eqb_refl. }
  assert (E3 : (h_total h + zsumL (map (rej ct) srcs)
                =? zlen (op_vs t) + zsumL (map (fun o => zlen (op_vs o)) srcs)) = true).
  { rewrite !zsumL_eq. apply Z.eqb_eq. unfold zlen at 1. lia. }
  assert (E4 : (if forallb (fun o => same_geom ct (op_cfg o)) srcs
                then forallb (fun d => d =? 0) (map (rej ct) srcs)
                     && eq_pairs (sparse h) (expect_counts ct (op_vs t ++ concat (map op_vs srcs)))
                else true) = true).
  { destruct (forallb (fun o => same_geom ct (op_cfg o)) srcs) eqn:Eg; [|reflexivity].
    rewrite forallb_forall in Eg. rewrite Forall_forall in Hs.
    assert (Hsame : forall o, In o srcs ->
              rej ct o = 0 /\ forall i, occ ct (reps o) i = occ ct (op_vs o) i).
    { intros o Ho. apply same_geom_reps; [exact (Hs o Ho)|].
      symmetry. apply same_geom_eq. exact (Eg o Ho). }
    apply andb_true_intro. split.
    - apply forallb_forall. intros d Hd. apply in_map_iff in Hd. destruct Hd as [o [<- Ho]].
      apply Z.eqb_eq. exact (proj1 (Hsame o Ho)).
    - rewrite (sparse_expect ct h (op_vs t ++ concat (map op_vs srcs)) Hcfg); [apply eq_pairs_refl|].
      intros i Hi. rewrite (D i Hi), !occ_app, !occ_concat, !map_map. f_equal.
      apply zsum_map_ext_in. intros o Ho. exact (proj2 (Hsame o Ho) i). }
  rewrite E1, E2, E3, E4, E5, E6. reflexivity.
Qed.
Print Assumptions c13_merge_sound.
