(* C07 / C08: the lemmas behind Props/C07.v and Props/C08.v.  The development is
   split over
     CollectorBase.v   signature count, chunk streams with metadata documents, the base collector as a log
     CollectorKinds.v  batch / dynamic / streaming / streaming dynamic collectors as logs of groups
     CollectorInv.v    the invariant of a (collector, writer) state and every operation on it
     CollectorLog.v    c07_log, c07_rejected_add, c07_resolve_readonly, reachable states
     CollectorSizes.v  the chunker, c08_dynamic, c08_dyn_count_refuted
     CollectorMix.v    c08_no_mixing, bc_add_accept_types, bc_add_refuse
     CollectorFresh.v  c07_reset_fresh
   This file re-exports them and proves the non-vacuity examples. *)
From Coq Require Import ZArith NArith List Bool Lia Arith.
From FV.Model Require Import Bytes Bson Metrics Codec Collector Wf RoundTrip CollectorOk.
From FV.Proofs Require Export CollectorBase CollectorKinds CollectorInv CollectorLog CollectorSizes CollectorMix CollectorFresh.
Import ListNotations.
Open Scope Z_scope.

Ltac ex_doc_wf :=
  split; [vm_compute; reflexivity|]; split; [vm_compute; reflexivity|]; split; [unfold small; vm_compute; reflexivity|];
  split; [vm_compute; reflexivity|vm_compute; reflexivity].

Ltac ex_cases :=
  repeat match goal with
         | H : _ \/ _ |- _ => destruct H as [H|H]
         | H : False |- _ => destruct H
         | H : OAdd _ _ = OAdd _ _ |- _ => injection H as <- <-
         | H : _ = OAdd _ _ |- _ => discriminate H
         | H : _ = _ :> doc |- _ => subst
         end.

Ltac ex_dist :=
  let Ht := fresh "Ht" in
  intros Ht _; (reflexivity || (vm_compute in Ht; discriminate Ht)).

(* ------------------------------------------------------------------ C07 *)
Theorem collector_example_c07 :
  let deflate := (fun p : bytes => 1%N :: p) in
  let inflate := (fun z : bytes => match z with b :: p => if (b =? 1)%N then Some p else None | [] => None end) in
  let dA := (fun x => [([97]%N, VInt64 x); ([98]%N, VDouble 0); ([115]%N, VString [122]%N)]) in
  let dB := (fun x => [([97]%N, VInt64 x); ([99]%N, VDoc [([120]%N, VBool true)])]) in
  let dC := (fun x => [([97]%N, VArr [VInt32 x; VNull; VDateTime 1000]); ([116]%N, VTimestamp 0 7)]) in
  let ops := [OSetMeta (Some [([109]%N, VInt32 1)]); OAdd (dA 1) 10; OAdd (dB 2) 11; OAdd (dA (-3)) 12; OResolve; OInfo;
              OFlush; OAdd (dB 4) 13; OAdd (dB 5) 14; OAdd (dC 6) 15; OAddBad; OReset; OAdd (dA 7) 16; OAdd (dA 8) 17;
              OAdd (dA 9) 18; OInfo; OFlush; OResolve] in
  (forall p, inflate (deflate p) = Some p) /\
  forall k, compressing k = true ->
    ops_ok k ops /\ c07_run deflate inflate None k 2 ops = true /\
    (k = KBase -> nth 2 (snd (run deflate (new_coll k 2, mkWriter [] [] false) ops)) BReset = BAdd RTypes).
Proof.
  cbv zeta. split; [intros p; reflexivity|]. intros k Hk. split; [|split].
  - split.
    + intros d [now Hin]. cbn [In] in Hin. ex_cases; ex_doc_wf.
    + intros a b [na Ha] [nb Hb]. cbn [In] in Ha, Hb. ex_cases; ex_dist.
  - destruct k; try discriminate Hk; vm_compute; reflexivity.
  - intros ->. vm_compute. reflexivity.
Qed.

(* ------------------------------------------------------------------ C08 *)
Theorem collector_example_c08 :
  let deflate := (fun p : bytes => 1%N :: p) in
  let inflate := (fun z : bytes => match z with b :: p => if (b =? 1)%N then Some p else None | [] => None end) in
  let dA := (fun x => [([97]%N, VInt64 x); ([98]%N, VDouble 0); ([115]%N, VString [122]%N)]) in
  let dB := (fun x => [([97]%N, VInt64 x); ([99]%N, VDoc [([120]%N, VBool true)])]) in
  let dC := (fun x => [([97]%N, VArr [VInt32 x; VNull; VDateTime 1000]); ([116]%N, VTimestamp 0 7)]) in
  let docs := [dA 1; dB 2; dB 3; dA 4; dA 5; dA 6; dC 7] in
  forall k, k = KDyn \/ k = KSDyn ->
    docs_ok k docs /\ expected_sizes 2 docs = [1; 2; 2; 1; 1] /\
    match decode_ftdc inflate None (emitted (snd (fst (emit deflate k 2 docs [0; 0; 0; 0; 0; 0; 0])))) with
    | Some d => c08_ok 2 docs true d = true
    | None => False
    end.
Proof.
  cbv zeta. intros k Hk. split; [|split].
  - split; [|split].
    + repeat (constructor; [ex_doc_wf|]). constructor.
    + intros a b Ha Hb. cbn [In] in Ha, Hb. ex_cases; ex_dist.
    + intros a b Ha Hb Hs. cbn [In] in Ha, Hb. destruct Hk as [->| ->]; ex_cases; try reflexivity;
        vm_compute in Hs; discriminate Hs.
  - vm_compute. reflexivity.
  - destruct Hk as [->| ->]; vm_compute; reflexivity.
Qed.

Print Assumptions c07_log.
Print Assumptions c07_rejected_add.
Print Assumptions c07_resolve_readonly.
Print Assumptions c07_reset_fresh.
Print Assumptions c08_dynamic.
Print Assumptions c08_dyn_count_refuted.
Print Assumptions c08_no_mixing.
Print Assumptions bc_add_accept_types.
Print Assumptions bc_add_refuse.
Print Assumptions collector_example_c07.
Print Assumptions collector_example_c08.
