(* Byte-level reading (Model/Frame.v): termination, truncation, prefix
   preservation, error reporting, totality of the views on every delivered
   chunk, and the bridge to the document-level reader of Model/Codec.v. *)
From Coq Require Import ZArith NArith List Bool Lia Arith.
From FV.Model Require Import Bytes Bson Metrics Codec Collector Wf RoundTrip CollectorOk Validate Frame Views ViewsOk FrameOk.
From FV.Proofs Require Import BytesProofs BsonProofs MetricsProofs CodecChunk ViewsProofs FrameValidate.
Import ListNotations.
Open Scope Z_scope.

(* ------------------------------------------------------------------ one document *)
Lemma validate_header : forall b, validate b = true ->
  exists r, read_i32 b = Some (Z.of_nat (length b), r) /\ (5 <= length b)%nat.
Proof.
  intros b H. unfold validate in H. rewrite validate_doc_S in H.
  destruct (read_i32 b) as [[n r]|]; [|discriminate H].
  apply andb_true_iff in H. destruct H as [H _].
  apply andb_true_iff in H. destruct H as [H _].
  apply andb_true_iff in H. destruct H as [H5 Hn].
  apply Z.leb_le in H5. apply Z.eqb_eq in Hn. subst n. exists r. split; [reflexivity|lia].
Qed.

Lemma read_i32_app : forall b n r rest, read_i32 b = Some (n, r) -> read_i32 (b ++ rest) = Some (n, r ++ rest).
Proof.
  intros b n r rest H. destruct b as [|b0 [|b1 [|b2 [|b3 t]]]]; try discriminate H.
  cbn [read_i32] in H. injection H as <- <-. reflexivity.
Qed.

Lemma read_one_framed : forall b d rest, framed b d -> read_one (b ++ rest) = FDoc d rest.
Proof.
  intros b d rest [Hv Hd]. destruct (validate_header b Hv) as (r & Hr & H5).
  unfold read_one. destruct (b ++ rest) as [|x l] eqn:El.
  { apply (f_equal (@length N)) in El. rewrite app_length in El. cbn [length] in El. lia. }
  rewrite <- El. rewrite (read_i32_app _ _ _ rest Hr).
  replace (Z.of_nat (length b) <? 5) with false by (symmetry; apply Z.ltb_ge; lia).
  replace (Z.of_nat (length (b ++ rest)) <? Z.of_nat (length b)) with false
    by (symmetry; apply Z.ltb_ge; rewrite app_length; lia).
  cbv zeta. rewrite Nat2Z.id, bs_firstn_app, bs_skipn_app, Hv, Hd. reflexivity.
Qed.

Lemma read_one_cut : forall b k, validate b = true -> (0 < k < length b)%nat ->
  read_one (firstn k b) = FErr FUnexpectedEof.
Proof.
  intros b k Hv Hk. destruct (validate_header b Hv) as (r & Hr & H5).
  destruct b as [|b0 [|b1 [|b2 [|b3 t]]]]; try (cbn [length] in H5; lia).
  assert (Hn : s32 (le_dec [b0; b1; b2; b3]) = Z.of_nat (length (b0 :: b1 :: b2 :: b3 :: t))).
  { unfold read_i32 in Hr. congruence. }
  destruct k as [|[|[|[|k]]]]; try lia; try reflexivity.
  cbn [firstn].
  assert (Hread : read_i32 (b0 :: b1 :: b2 :: b3 :: firstn k t) =
                  Some (Z.of_nat (length (b0 :: b1 :: b2 :: b3 :: t)), firstn k t)).
  { unfold read_i32. rewrite Hn. reflexivity. }
  unfold read_one. rewrite Hread.
  replace (Z.of_nat (length (b0 :: b1 :: b2 :: b3 :: t)) <? 5) with false by (symmetry; apply Z.ltb_ge; lia).
  replace (Z.of_nat (length (b0 :: b1 :: b2 :: b3 :: firstn k t)) <? Z.of_nat (length (b0 :: b1 :: b2 :: b3 :: t))) with true.
  - reflexivity.
  - symmetry. apply Z.ltb_lt. cbn [length] in *. rewrite firstn_length. lia.
Qed.

Lemma read_one_inv : forall l d rest, read_one l = FDoc d rest ->
  exists b, l = b ++ rest /\ framed b d /\ (5 <= length b)%nat.
Proof.
  intros l d rest H. unfold read_one in H. destruct l as [|x l0]; [discriminate H|].
  remember (x :: l0) as l eqn:El. clear El.
  destruct (read_i32 l) as [[size r]|]; [|discriminate H].
  destruct (size <? 5) eqn:E5; [discriminate H|].
  destruct (Z.of_nat (length l) <? size) eqn:El; [discriminate H|].
  cbv zeta in H. apply Z.ltb_ge in E5, El.
  destruct (validate (firstn (Z.to_nat size) l)) eqn:Hv; [|discriminate H].
  destruct (dec_doc (firstn (Z.to_nat size) l)) as [[d' [|y t]]|] eqn:Hd; try discriminate H.
  injection H as <- <-. exists (firstn (Z.to_nat size) l).
  split; [symmetry; apply firstn_skipn|]. split; [split; assumption|].
  rewrite firstn_length. lia.
Qed.

Lemma read_one_consumes : forall l d rest, read_one l = FDoc d rest -> (length rest + 5 <= length l)%nat.
Proof.
  intros l d rest H. destruct (read_one_inv l d rest H) as (b & -> & _ & H5). rewrite app_length. lia.
Qed.

(* ------------------------------------------------------------------ the fuel of read_docs is sufficient *)
Lemma read_docs_fuel_any : forall n f1 f2 l, (length l <= n)%nat -> (length l < f1)%nat -> (length l < f2)%nat ->
  read_docs_fuel f1 l = read_docs_fuel f2 l.
Proof.
  induction n as [|n IH]; intros f1 f2 l Hn H1 H2.
  - destruct l; [|cbn [length] in Hn; lia]. destruct f1, f2; try lia. reflexivity.
  - destruct f1 as [|f1]; [lia|]. destruct f2 as [|f2]; [lia|]. cbn [read_docs_fuel].
    destruct (read_one l) as [|d rest|e] eqn:E; try reflexivity.
    pose proof (read_one_consumes l d rest E) as Hc.
    rewrite (IH f1 f2 rest) by lia. reflexivity.
Qed.

Theorem read_docs_fuel_enough : forall l k,
  read_docs_fuel (S (length l) + k) l = read_docs_fuel (S (length l)) l.
Proof. intros l k. apply (read_docs_fuel_any (length l)); lia. Qed.

Lemma read_docs_unfold : forall l,
  read_docs l = match read_one l with
                | FEof => ([], None)
                | FErr e => ([], Some e)
                | FDoc d rest => let '(ds, e) := read_docs rest in (d :: ds, e)
                end.
Proof.
  intros l. unfold read_docs. cbn [read_docs_fuel].
  destruct (read_one l) as [|d rest|e] eqn:E; try reflexivity.
  pose proof (read_one_consumes l d rest E) as Hc.
  rewrite (read_docs_fuel_any (length rest) (length l) (S (length rest)) rest) by lia. reflexivity.
Qed.

Lemma read_docs_nil : read_docs [] = ([], None).
Proof. reflexivity. Qed.

Lemma read_docs_framed_cons : forall b d rest, framed b d ->
  read_docs (b ++ rest) = (d :: fst (read_docs rest), snd (read_docs rest)).
Proof.
  intros b d rest H. rewrite read_docs_unfold, (read_one_framed b d rest H).
  destruct (read_docs rest). reflexivity.
Qed.

(* C04_prefix_intact, documents *)
Lemma read_docs_app : forall bl ds rest, Forall2 framed bl ds ->
  read_docs (concat bl ++ rest) = (ds ++ fst (read_docs rest), snd (read_docs rest)).
Proof.
  intros bl ds rest H. induction H as [|b d bl ds Hb _ IH]; cbn [concat app].
  - destruct (read_docs rest); reflexivity.
  - rewrite <- app_assoc, (read_docs_framed_cons b d _ Hb), IH. reflexivity.
Qed.

(* ------------------------------------------------------------------ truncation *)
Lemma firstn_app_le : forall (A : Type) (a b : list A) k, (length a <= k)%nat ->
  firstn k (a ++ b) = a ++ firstn (k - length a) b.
Proof. intros. rewrite firstn_app, firstn_all2 by assumption. reflexivity. Qed.

Lemma firstn_app_lt : forall (A : Type) (a b : list A) k, (k <= length a)%nat ->
  firstn k (a ++ b) = firstn k a.
Proof.
  intros. rewrite firstn_app. replace (k - length a)%nat with O by lia. cbn [firstn]. apply app_nil_r.
Qed.

Lemma list_sum_cons : forall a l, list_sum (a :: l) = (a + list_sum l)%nat.
Proof. reflexivity. Qed.

Lemma truncation_gen : forall bl ds, Forall2 framed bl ds -> forall k, (k <= length (concat bl))%nat ->
  read_docs (firstn k (concat bl)) =
  (firstn (within k (map (@length N) bl)) ds,
   if at_boundary k (map (@length N) bl) then None else Some FUnexpectedEof).
Proof.
  intros bl ds H. induction H as [|b d bl ds Hb _ IH]; intros k Hk.
  - cbn [concat length] in Hk. replace k with O by lia. reflexivity.
  - cbn [concat map within]. cbn [concat] in Hk. rewrite app_length in Hk.
    destruct (Nat.leb (length b) k) eqn:E.
    + apply Nat.leb_le in E. rewrite firstn_app_le by exact E.
      rewrite (read_docs_framed_cons b d _ Hb). rewrite IH by lia. cbn [fst snd firstn].
      unfold at_boundary. cbn [within map]. replace (Nat.leb (length b) k) with true by (symmetry; apply Nat.leb_le; exact E).
      cbn [firstn]. rewrite list_sum_cons.
      destruct (Nat.eqb (k - length b) _) eqn:E1.
      * apply Nat.eqb_eq in E1. replace (Nat.eqb k _) with true; [reflexivity|]. symmetry. apply Nat.eqb_eq. lia.
      * apply Nat.eqb_neq in E1. replace (Nat.eqb k _) with false; [reflexivity|]. symmetry. apply Nat.eqb_neq. lia.
    + apply Nat.leb_gt in E. rewrite firstn_app_lt by lia. unfold at_boundary. cbn [within map].
      replace (Nat.leb (length b) k) with false by (symmetry; apply Nat.leb_gt; exact E).
      cbn [firstn list_sum]. destruct k as [|k].
      * reflexivity.
      * rewrite read_docs_unfold, (read_one_cut b (S k) (proj1 Hb)) by lia. reflexivity.
Qed.

Lemma frame_ok_Forall2 : forall ds, Forall frame_ok ds -> Forall2 framed (map enc_doc ds) ds.
Proof. induction 1; cbn [map]; constructor; assumption. Qed.

Theorem read_docs_truncated : forall ds k, Forall frame_ok ds -> (k <= length (enc_stream ds))%nat ->
  read_docs (firstn k (enc_stream ds)) =
  (firstn (within k (doc_lens ds)) ds, if at_boundary k (doc_lens ds) then None else Some FUnexpectedEof).
Proof.
  intros ds k Hf Hk. unfold enc_stream, doc_lens in *.
  rewrite (truncation_gen _ ds (frame_ok_Forall2 ds Hf) k Hk), map_map. reflexivity.
Qed.

(* ------------------------------------------------------------------ C04_error_iff *)
Lemma read_docs_ok_inv : forall n l ds, (length l <= n)%nat -> read_docs l = (ds, None) ->
  exists bl, l = concat bl /\ Forall2 framed bl ds.
Proof.
  induction n as [|n IH]; intros l ds Hn H; rewrite read_docs_unfold in H.
  - destruct l; [|cbn [length] in Hn; lia]. cbn in H. injection H as <-. exists []. split; [reflexivity|constructor].
  - destruct (read_one l) as [|d rest|e] eqn:E.
    + injection H as <-. unfold read_one in E. destruct l as [|x l0].
      * exists []. split; [reflexivity|constructor].
      * exfalso. remember (x :: l0) as l. destruct (read_i32 l) as [[sz r]|]; [|discriminate E].
        destruct (sz <? 5); [discriminate E|]. destruct (Z.of_nat (length l) <? sz); [discriminate E|].
        cbv zeta in E. destruct (validate (firstn (Z.to_nat sz) l)); [|discriminate E].
        destruct (dec_doc (firstn (Z.to_nat sz) l)) as [[d' [|y t]]|]; discriminate E.
    + destruct (read_one_inv l d rest E) as (b & -> & Hb & H5).
      destruct (read_docs rest) as [ds' e'] eqn:Er. injection H as <- ->.
      destruct (IH rest ds') as (bl & -> & Hbl); [rewrite app_length in Hn; lia|exact Er|].
      exists (b :: bl). split; [reflexivity|]. constructor; assumption.
    + discriminate H.
Qed.

(* ------------------------------------------------------------------ the chunk decoder over a document sequence *)
Section Chunks.
Variable inflate : bytes -> option bytes.
Variable limit : N.
Variable evalcap : option N.

Fixpoint last_meta (meta : option doc) (ds : list doc) : option doc :=
  match ds with
  | [] => meta
  | d :: r => if is_num 0 (lookup k_type d) then last_meta (Some d) r else last_meta meta r
  end.

Lemma read_chunks_b_app : forall a meta b,
  read_chunks_b inflate limit evalcap meta (a ++ b) =
  match read_chunks_b inflate limit evalcap meta a with
  | (ca, None) => let '(cb, eb) := read_chunks_b inflate limit evalcap (last_meta meta a) b in (ca ++ cb, eb)
  | (ca, Some e) => (ca, Some e)
  end.
Proof.
  induction a as [|d a IH]; intros meta b; cbn [app read_chunks_b last_meta].
  - destruct (read_chunks_b inflate limit evalcap meta b). reflexivity.
  - destruct (is_num 0 (lookup k_type d)); [apply IH|].
    destruct (negb (is_num 1 (lookup k_type d))); [apply IH|].
    destruct (read_chunk_b inflate limit evalcap meta d) as [c|e]; [|reflexivity].
    rewrite IH. destruct (read_chunks_b inflate limit evalcap meta a) as [ca [e|]]; [reflexivity|].
    destruct (read_chunks_b inflate limit evalcap (last_meta meta a) b). reflexivity.
Qed.

Lemma read_chunks_b_prefix : forall a b meta, exists cs',
  fst (read_chunks_b inflate limit evalcap meta (a ++ b)) = fst (read_chunks_b inflate limit evalcap meta a) ++ cs'.
Proof.
  intros a b meta. rewrite read_chunks_b_app.
  destruct (read_chunks_b inflate limit evalcap meta a) as [ca [e|]].
  - exists []. cbn [fst]. symmetry. apply app_nil_r.
  - destruct (read_chunks_b inflate limit evalcap (last_meta meta a) b) as [cb eb]. exists cb. reflexivity.
Qed.

(* a stream that reads without decoder error: so does every prefix of its documents *)
Lemma read_chunks_b_firstn : forall ds meta cs j, read_chunks_b inflate limit evalcap meta ds = (cs, None) ->
  exists cs1, read_chunks_b inflate limit evalcap meta (firstn j ds) = (cs1, None) /\
              exists cs2, cs = cs1 ++ cs2.
Proof.
  intros ds meta cs j H. rewrite <- (firstn_skipn j ds) in H. rewrite read_chunks_b_app in H.
  destruct (read_chunks_b inflate limit evalcap meta (firstn j ds)) as [ca [e|]]; [discriminate H|].
  destruct (read_chunks_b inflate limit evalcap (last_meta meta (firstn j ds)) (skipn j ds)) as [cb eb].
  injection H as <- ->. exists ca. split; [reflexivity|]. exists cb. reflexivity.
Qed.

Lemma read_chunks_b_all : forall (P : chunk -> Prop),
  (forall meta d c, read_chunk_b inflate limit evalcap meta d = inl c -> P c) ->
  forall ds meta, Forall P (fst (read_chunks_b inflate limit evalcap meta ds)).
Proof.
  intros P HP. induction ds as [|d r IH]; intros meta; cbn [read_chunks_b]; [constructor|].
  destruct (is_num 0 (lookup k_type d)); [apply IH|].
  destruct (negb (is_num 1 (lookup k_type d))); [apply IH|].
  destruct (read_chunk_b inflate limit evalcap meta d) as [c|e] eqn:E; [|constructor].
  specialize (IH meta). destruct (read_chunks_b inflate limit evalcap meta r) as [cs e'].
  cbn [fst] in *. constructor; [apply (HP meta d c E)|exact IH].
Qed.

(* ------------------------------------------------------------------ C04_prefix_intact *)
Theorem prefix_intact_docs : forall good rest, Forall frame_ok good ->
  read_docs (enc_stream good ++ rest) = (good ++ fst (read_docs rest), snd (read_docs rest)).
Proof. intros good rest H. unfold enc_stream. apply read_docs_app, frame_ok_Forall2, H. Qed.

Theorem prefix_intact_chunks : forall good rest, Forall frame_ok good ->
  exists cs', fst (read_stream inflate limit evalcap (enc_stream good ++ rest)) =
              fst (read_stream inflate limit evalcap (enc_stream good)) ++ cs'.
Proof.
  intros good rest H. unfold read_stream.
  rewrite (prefix_intact_docs good rest H).
  pose proof (prefix_intact_docs good [] H) as H0. rewrite read_docs_nil in H0. cbn [fst snd] in H0.
  rewrite !app_nil_r in H0. rewrite H0. cbn [fst snd].
  destruct (read_chunks_b_prefix good (fst (read_docs rest)) None) as [cs' Hcs].
  destruct (read_chunks_b inflate limit evalcap None (good ++ fst (read_docs rest))) as [c1 e1].
  destruct (read_chunks_b inflate limit evalcap None good) as [c2 e2].
  cbn [fst] in *. exists cs'. exact Hcs.
Qed.

End Chunks.

Section ErrorIff.
Variable inflate : bytes -> option bytes.

Theorem error_iff : forall bs,
  snd (read_stream inflate reader_limit None bs) = false <-> stream_ok inflate bs.
Proof.
  intros bs. split.
  - intros H. unfold read_stream in H. destruct (read_docs bs) as [ds fe] eqn:Ed.
    destruct (read_chunks_b inflate reader_limit None None ds) as [cs ce] eqn:Ec. cbn [snd] in H.
    destruct fe; [discriminate H|]. destruct ce; [discriminate H|].
    destruct (read_docs_ok_inv (length bs) bs ds (le_n _) Ed) as (bl & Hbs & Hbl).
    exists bl, ds. split; [exact Hbs|]. split; [exact Hbl|]. rewrite Ec. reflexivity.
  - intros (bl & ds & -> & Hbl & Hc). unfold read_stream.
    pose proof (read_docs_app bl ds [] Hbl) as Hd. rewrite read_docs_nil in Hd. cbn [fst snd] in Hd.
    rewrite !app_nil_r in Hd. rewrite Hd.
    destruct (read_chunks_b inflate reader_limit None None ds) as [cs ce]. cbn [snd] in *. subst ce. reflexivity.
Qed.

End ErrorIff.

(* ------------------------------------------------------------------ restoration never runs out of values *)
Definition restore_tot_P (v : value) : Prop :=
  forall vals, (length (flatten v) <= length vals)%nat ->
  exists ox rest, restore v vals = Some (ox, rest) /\ length rest = (length vals - length (flatten v))%nat.

Lemma restore_doc_tot_F : forall d, Forall (fun kv => restore_tot_P (snd kv)) d ->
  forall vals, (length (flatten_doc d) <= length vals)%nat ->
  exists items rest, restore_doc d vals = Some (items, rest) /\
                     length rest = (length vals - length (flatten_doc d))%nat.
Proof.
  induction d as [|[k x] r IH]; intros HF vals Hl.
  - exists [], vals. split; [reflexivity|]. cbn [flatten_doc length]. lia.
  - inversion HF as [|y z Hx Hr]; subst. cbn [snd] in Hx.
    cbn [flatten_doc] in Hl. rewrite app_length in Hl.
    destruct (Hx vals ltac:(lia)) as (ox & vs1 & E1 & L1).
    destruct (IH Hr vs1 ltac:(lia)) as (rs & vs2 & E2 & L2).
    cbn [restore_doc]. rewrite E1, E2. eexists _, vs2. split; [reflexivity|].
    cbn [flatten_doc]. rewrite app_length. lia.
Qed.

Lemma restore_arr_tot_F : forall a, Forall restore_tot_P a ->
  forall vals, (length (flatten_arr a) <= length vals)%nat ->
  exists items rest, restore_arr a vals = Some (items, rest) /\
                     length rest = (length vals - length (flatten_arr a))%nat.
Proof.
  induction a as [|x r IH]; intros HF vals Hl.
  - exists [], vals. split; [reflexivity|]. cbn [flatten_arr length]. lia.
  - inversion HF as [|y z Hx Hr]; subst.
    cbn [flatten_arr] in Hl. rewrite app_length in Hl.
    destruct (Hx vals ltac:(lia)) as (ox & vs1 & E1 & L1).
    destruct (IH Hr vs1 ltac:(lia)) as (rs & vs2 & E2 & L2).
    cbn [restore_arr]. rewrite E1, E2. eexists _, vs2. split; [reflexivity|].
    cbn [flatten_arr]. rewrite app_length. lia.
Qed.

Lemma restore_tot_value : forall v, restore_tot_P v.
Proof.
  apply BsonProofs.value_ind'; unfold restore_tot_P; intros;
    try (eexists None, vals; split; [reflexivity|cbn [flatten length]; lia]).
  - (* VDouble *) destruct vals as [|x r]; [cbn in H; lia|]. eexists _, r. split; [reflexivity|cbn; lia].
  - (* VDoc *) rewrite restore_VDoc. rewrite flatten_VDoc in *.
    destruct (restore_doc_tot_F d H vals H0) as (items & rest & E & L). rewrite E. eexists _, rest. split; [reflexivity|exact L].
  - (* VArr *) rewrite restore_VArr. rewrite flatten_VArr in *.
    destruct (restore_arr_tot_F a H vals H0) as (items & rest & E & L). rewrite E. eexists _, rest. split; [reflexivity|exact L].
  - (* VBool *) destruct vals as [|x r]; [cbn in H; lia|]. eexists _, r. split; [reflexivity|cbn; lia].
  - (* VDateTime *) destruct vals as [|x r]; [cbn in H; lia|]. eexists _, r. split; [reflexivity|cbn; lia].
  - (* VInt32 *) destruct vals as [|x r]; [cbn in H; lia|]. eexists _, r. split; [reflexivity|cbn; lia].
  - (* VTimestamp *) destruct vals as [|x [|y r]]; try (cbn in H; lia). eexists _, r. split; [reflexivity|cbn; lia].
  - (* VInt64 *) destruct vals as [|x r]; [cbn in H; lia|]. eexists _, r. split; [reflexivity|cbn; lia].
Qed.

Lemma restore_doc_total : forall d vals, (length (flatten_doc d) <= length vals)%nat ->
  restore_doc d vals <> None.
Proof.
  intros d vals H.
  destruct (restore_doc_tot_F d (proj2 (Forall_forall _ _) (fun kv _ => restore_tot_value (snd kv))) vals H)
    as (items & rest & E & _).
  rewrite E. discriminate.
Qed.

(* ------------------------------------------------------------------ C04_no_panic *)
Section NoPanic.
Variable inflate : bytes -> option bytes.
Variable limit : N.
Variable evalcap : option N.

Lemma read_chunk_b_inv : forall meta d c, read_chunk_b inflate limit evalcap meta d = inl c -> chunk_total c.
Proof.
  intros meta d c H. unfold read_chunk_b in H.
  destruct (lookup k_data d) as [v|]; [|discriminate H].
  destruct v; try discriminate H.
  match type of H with context [Nat.ltb (length ?zb) 4] =>
    destruct (Nat.ltb (length zb) 4); [discriminate H|];
    destruct (inflate (skipn 4 zb)) as [p|]; [|discriminate H]
  end.
  destruct (read_one p) as [|ref r1|e]; try discriminate H.
  destruct (take_exact 8 r1) as [[w r2]|]; [|discriminate H].
  cbv zeta in H.
  set (ms := metrics_of_doc [] ref) in *.
  set (nm := le_dec (firstn 4 w)) in *. set (nd := le_dec (skipn 4 w)) in *.
  destruct (negb (nm =? N.of_nat (length ms))%N) eqn:Hn; [discriminate H|].
  destruct (too_big limit nm nd); [discriminate H|].
  destruct (match evalcap with Some c0 => too_big c0 nm nd | None => false end); [discriminate H|].
  destruct (read_deltas (N.to_nat (nm * nd)) 0%N r2) as [[ds rest]|] eqn:Hrd; [|discriminate H].
  injection H as <-. unfold chunk_total. cbn [ck_metrics ck_ref ck_npoints].
  apply negb_false_iff, N.eqb_eq in Hn.
  pose proof (read_deltas_length _ _ _ _ _ Hrd) as Hlen.
  set (cols := split_every (N.to_nat nd) (length ms) ds).
  assert (Hcl : length cols = length ms) by apply split_every_length.
  assert (Hce : Forall (fun c => length c = N.to_nat nd) cols).
  { apply split_every_each. rewrite Hlen, Hn. rewrite N2Nat.inj_mul, Nat2N.id. reflexivity. }
  assert (Hfst : map fst (map (fun mc : metric * list Z => (fst mc, undelta (m_start (fst mc)) (snd mc))) (combine ms cols)) = ms).
  { rewrite map_map. cbn [fst]. apply vp_map_fst_combine. symmetry. exact Hcl. }
  split; [exact Hfst|]. split; [|split].
  - apply Forall_forall. intros mv Hin. apply in_map_iff in Hin. destruct Hin as [[m col] [<- Hin]].
    cbn [fst snd]. rewrite undelta_length.
    apply in_combine_r in Hin. rewrite Forall_forall in Hce. rewrite (Hce col Hin). lia.
  - rewrite map_length, combine_length, Hcl, Nat.min_id. reflexivity.
  - lia.
Qed.

Lemma sample_row_length : forall c i, length (sample_row c i) = length (ck_metrics c).
Proof. intros. unfold sample_row. apply map_length. Qed.

Lemma chunk_total_views : forall c, chunk_total c -> views_total c.
Proof.
  intros c Ht. pose proof Ht as (Hm & Hv & Hl & Hn). split; [exact Ht|]. split; [|split; [|split]].
  - intros Hin. unfold structured_docs in Hin. apply in_map_iff in Hin. destruct Hin as (i & Hi & _).
    destruct (restore_doc (ck_ref c) (sample_row c i)) as [[d0 r0]|] eqn:E; [discriminate Hi|].
    apply (restore_doc_total (ck_ref c) (sample_row c i)); [|exact E].
    rewrite sample_row_length, Hl, metrics_of_doc_length. apply le_n.
  - pose proof (views_project c (chunk_table_wf c Hv)) as Hp. cbv zeta in Hp.
    destruct Hp as (_ & _ & _ & _ & _ & _ & _ & _ & _ & _ & _ & _ & Hex).
    destruct Hex as [dm Hdm]; [|rewrite Hdm; discriminate].
    rewrite chunk_table_types, Hm, metrics_of_doc_types. apply flatten_doc_paired.
  - unfold structured_docs. rewrite map_length, seq_length. reflexivity.
  - unfold flat_docs. rewrite map_length, seq_length. reflexivity.
Qed.

Theorem no_panic : forall bs,
  Forall views_total (fst (read_stream inflate limit evalcap bs)).
Proof.
  intros bs. unfold read_stream. destruct (read_docs bs) as [ds fe].
  pose proof (read_chunks_b_all inflate limit evalcap views_total
                (fun meta d c H => chunk_total_views c (read_chunk_b_inv meta d c H)) ds None) as HF.
  destruct (read_chunks_b inflate limit evalcap None ds) as [cs ce]. exact HF.
Qed.

End NoPanic.

(* ------------------------------------------------------------------ C04_bridge *)
Lemma too_big_false : forall bound nm nd, (nd <= bound)%N -> (nm * nd <= bound)%N -> too_big bound nm nd = false.
Proof.
  intros bound nm nd H1 H2. unfold too_big.
  replace (bound <? nd)%N with false by (symmetry; apply N.ltb_ge; exact H1). cbn [orb].
  destruct (0 <? nm)%N eqn:E; [|reflexivity]. apply N.ltb_lt in E. cbn [andb].
  apply N.ltb_ge. apply N.div_le_lower_bound; lia.
Qed.

Section Bridge.
Variable deflate : bytes -> bytes.
Variable inflate : bytes -> option bytes.
Hypothesis inflate_deflate : forall p, inflate (deflate p) = Some p.
Variable limit : N.

Lemma read_group_chunk_b : forall meta s d0 ds,
  doc_ok d0 = true -> small (enc_doc d0) ->
  (N.of_nat (length (flatten_doc d0)) < 2 ^ 32)%N -> (N.of_nat (length ds) < 2 ^ 32)%N ->
  (N.of_nat (length ds) <= limit)%N -> (N.of_nat (length (flatten_doc d0)) * N.of_nat (length ds) <= limit)%N ->
  read_chunk_b inflate limit None meta (group_chunk deflate s d0 ds) = inl (group_ck meta s d0 ds).
Proof.
  intros meta s d0 ds Hok Hsmall Hm Hd Hl1 Hl2.
  unfold read_chunk_b, group_chunk.
  rewrite lookup_data_chunk, lookup_id_chunk.
  unfold compress.
  set (m := length (flatten_doc d0)) in *.
  set (rows := delta_rows d0 ds).
  assert (Hrl : length rows = length ds) by apply delta_rows_length.
  set (p := payload d0 m rows).
  replace (Nat.ltb (length (le_enc 4 (N.of_nat (length p) mod 2 ^ 32) ++ deflate p)) 4) with false
    by (symmetry; apply Nat.ltb_ge; rewrite app_length, le_enc_length; lia).
  rewrite (skipn_app_exact _ (le_enc 4 (N.of_nat (length p) mod 2 ^ 32)) (deflate p) 4) by apply le_enc_length.
  rewrite inflate_deflate.
  unfold p, payload.
  rewrite (read_one_framed (enc_doc d0) d0 _ (frame_ok_enc d0 Hok Hsmall)).
  rewrite !N.mod_small by (rewrite ?Hrl; assumption).
  rewrite (app_assoc (le_enc 4 (N.of_nat m))).
  rewrite (bs_take_exact_app 8 (le_enc 4 (N.of_nat m) ++ le_enc 4 (N.of_nat (length rows))))
    by (rewrite app_length, !le_enc_length; reflexivity).
  cbv zeta.
  rewrite (firstn_app_exact _ (le_enc 4 (N.of_nat m)) (le_enc 4 (N.of_nat (length rows))) 4) by apply le_enc_length.
  rewrite (skipn_app_exact _ (le_enc 4 (N.of_nat m)) (le_enc 4 (N.of_nat (length rows))) 4) by apply le_enc_length.
  rewrite !le_dec_enc by (change (256 ^ N.of_nat 4)%N with (2 ^ 32)%N; rewrite ?Hrl; assumption).
  rewrite metrics_of_doc_length. fold m.
  rewrite N.eqb_refl. cbn [negb].
  rewrite too_big_false by (rewrite Hrl; assumption).
  assert (Hcnt : N.to_nat (N.of_nat m * N.of_nat (length rows)) = length (metric_major m rows)).
  { unfold metric_major. rewrite flat_map_column_length. lia. }
  rewrite Hcnt.
  rewrite <- (app_nil_r (rle 0%N (metric_major m rows))).
  rewrite rle_read_deltas.
  - rewrite Nat2N.id. unfold metric_major. rewrite split_every_flat_map_column.
    unfold group_ck, group_cols. fold m. fold rows. rewrite Hrl. reflexivity.
  - unfold metric_major. apply flat_map_column_in_i64. apply delta_rows_in_i64.
  - rewrite <- Hcnt. rewrite N2Nat.id. rewrite Hrl.
    assert (2 ^ 32 * 2 ^ 32 = 2 ^ 64)%N as H64 by reflexivity. nia.
Qed.

Theorem bridge_chunk : forall meta s d0 ds,
  doc_ok d0 = true -> small (enc_doc d0) ->
  (N.of_nat (length (flatten_doc d0)) < 2 ^ 32)%N -> (N.of_nat (length ds) < 2 ^ 32)%N ->
  (N.of_nat (length ds) <= limit)%N -> (N.of_nat (length (flatten_doc d0)) * N.of_nat (length ds) <= limit)%N ->
  read_chunk_b inflate limit None meta (group_chunk deflate s d0 ds) =
  read_chunk inflate meta (group_chunk deflate s d0 ds).
Proof.
  intros. rewrite read_group_chunk_b by assumption.
  rewrite (read_group_chunk deflate inflate inflate_deflate) by assumption. reflexivity.
Qed.

End Bridge.
