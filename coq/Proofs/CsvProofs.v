(* Proofs for C18 (CSV export / import).  Model: Model/Csv.v, oracle-side
   definitions: Model/CsvOk.v. *)
From Coq Require Import ZArith NArith List Bool Lia Arith.
From FV.Model Require Import Bytes Bson Metrics Codec Collector Wf RoundTrip CollectorOk Views Csv CsvOk.
From FV.Proofs Require Import CollectorSizes.
Import ListNotations.

(* ================================================================== integers *)
Section Integers.
Open Scope N_scope.

Lemma dd_acc : forall f n acc, dec_digits_fuel f n acc = dec_digits_fuel f n [] ++ acc.
Proof.
  induction f as [|f IH]; intros n acc; [reflexivity|].
  cbn [dec_digits_fuel]. destruct (n <? 10); [reflexivity|].
  rewrite (IH (n / 10) ((48 + n mod 10) :: acc)), (IH (n / 10) [48 + n mod 10]).
  rewrite <- app_assoc. reflexivity.
Qed.

Lemma dd_digits : forall f n acc, forallb is_digit acc = true ->
  forallb is_digit (dec_digits_fuel f n acc) = true.
Proof.
  induction f as [|f IH]; intros n acc Hacc; [exact Hacc|].
  cbn [dec_digits_fuel].
  assert (forallb is_digit ((48 + n mod 10) :: acc) = true) as Hacc'.
  { cbn [forallb]. rewrite Hacc, andb_true_r. unfold is_digit.
    pose proof (N.mod_lt n 10 ltac:(discriminate)) as Hm. remember (n mod 10) as m.
    apply andb_true_iff. split; [apply N.leb_le|apply N.leb_le]; lia. }
  destruct (n <? 10); [exact Hacc'|]. apply IH. exact Hacc'.
Qed.

Lemma dd_val : forall f n acc, n < 10 ^ N.of_nat f ->
  fold_left dstep (dec_digits_fuel f n acc) 0 = fold_left dstep acc n.
Proof.
  induction f as [|f IH]; intros n acc Hn.
  - cbn [dec_digits_fuel]. change (10 ^ N.of_nat 0) with 1 in Hn.
    assert (n = 0) by lia. subst n. reflexivity.
  - cbn [dec_digits_fuel]. pose proof (N.div_mod n 10 ltac:(discriminate)) as Hdm.
    pose proof (N.mod_lt n 10 ltac:(discriminate)) as Hml.
    destruct (n <? 10) eqn:E.
    + apply N.ltb_lt in E. cbn [fold_left]. f_equal. unfold dstep.
      rewrite N.mod_small by assumption. lia.
    + apply N.ltb_ge in E. rewrite IH.
      * cbn [fold_left]. f_equal. unfold dstep.
        remember (n mod 10) as m. remember (n / 10) as q. lia.
      * rewrite Nat2N.inj_succ, N.pow_succ_r' in Hn.
        apply N.div_lt_upper_bound; [discriminate|assumption].
Qed.

Lemma dd_step : forall f n acc, dec_digits_fuel (S f) n acc =
  if n <? 10 then (48 + n mod 10) :: acc else dec_digits_fuel f (n / 10) ((48 + n mod 10) :: acc).
Proof. reflexivity. Qed.

(* the rendering starts with a digit (hence is non-empty) *)
Lemma dd_head : forall n, exists b r, dec_digits n = b :: r /\ is_digit b = true.
Proof.
  intro n. pose proof (dd_digits 40 n [] eq_refl) as Hd. fold (dec_digits n) in Hd.
  assert (dec_digits n <> []) as Hne.
  { unfold dec_digits. change 40%nat with (S 39). rewrite dd_step.
    destruct (n <? 10); [discriminate|]. rewrite dd_acc.
    destruct (dec_digits_fuel 39 (n / 10) []); discriminate. }
  destruct (dec_digits n) as [|b r]; [congruence|].
  exists b, r. split; [reflexivity|]. cbn [forallb] in Hd. apply andb_true_iff in Hd. tauto.
Qed.

Lemma parse_digits_dec : forall n, n < 10 ^ 40 -> parse_digits (dec_digits n) = Some n.
Proof.
  intros n Hn. destruct (dd_head n) as [b [r [E _]]].
  unfold parse_digits. rewrite E. rewrite <- E.
  unfold dec_digits at 1. rewrite (dd_digits 40 n [] eq_refl).
  unfold dec_digits. change 40 with (N.of_nat 40) in Hn. rewrite (dd_val 40 n [] Hn). reflexivity.
Qed.

Lemma is_digit_not_sign : forall b, is_digit b = true -> (b =? 45) = false /\ (b =? 43) = false.
Proof.
  intros b H. unfold is_digit in H. apply andb_true_iff in H. destruct H as [H1 H2].
  apply N.leb_le in H1. apply N.leb_le in H2. split; apply N.eqb_neq; lia.
Qed.

Lemma parse_digits_bad : forall s x, In x s -> is_digit x = false -> parse_digits s = None.
Proof.
  intros s x Hin Hx. unfold parse_digits. destruct s as [|b r]; [reflexivity|].
  assert (forallb is_digit (b :: r) = false) as Hf.
  { apply not_true_is_false. intro Ht. rewrite forallb_forall in Ht. rewrite (Ht x Hin) in Hx. discriminate. }
  rewrite Hf. reflexivity.
Qed.

End Integers.

Open Scope Z_scope.

(* strconv.Atoi (strconv.FormatInt (z, 10)) = z for every int64 *)
Lemma parse_render_int : forall z, in_i64 z = true -> parse_int (render_int z) = Some z.
Proof.
  intros z Hz. unfold in_i64 in Hz. apply andb_true_iff in Hz. destruct Hz as [Hlo Hhi].
  apply Z.leb_le in Hlo. apply Z.ltb_lt in Hhi.
  assert (2 ^ 63 < 10 ^ 40) as Hpow by (vm_compute; reflexivity).
  unfold render_int. destruct (z <? 0) eqn:Eneg.
  - apply Z.ltb_lt in Eneg. unfold parse_int.
    change ((45 =? 45)%N) with true. cbn [orb].
    rewrite parse_digits_dec.
    + rewrite Z2N.id by lia. rewrite Z.opp_involutive.
      replace (in_i64 z) with true; [reflexivity|].
      symmetry. unfold in_i64. apply andb_true_iff. split; [apply Z.leb_le|apply Z.ltb_lt]; lia.
    + apply N2Z.inj_lt. rewrite Z2N.id by lia. change (Z.of_N (10 ^ 40)) with (10 ^ 40). lia.
  - apply Z.ltb_ge in Eneg.
    destruct (dd_head (Z.to_N z)) as [b [r [E Hb]]].
    destruct (is_digit_not_sign b Hb) as [H45 H43].
    unfold parse_int. rewrite E. rewrite H45, H43. cbn [orb]. rewrite <- E.
    rewrite parse_digits_dec.
    + rewrite Z2N.id by lia.
      replace (in_i64 z) with true; [reflexivity|].
      symmetry. unfold in_i64. apply andb_true_iff. split; [apply Z.leb_le|apply Z.ltb_lt]; lia.
    + apply N2Z.inj_lt. rewrite Z2N.id by lia. change (Z.of_N (10 ^ 40)) with (10 ^ 40). lia.
Qed.

(* the rendering is never empty, so a row of cells is never an empty line *)
Lemma render_int_nonempty : forall z, render_int z <> [].
Proof.
  intro z. unfold render_int. destruct (z <? 0); [discriminate|].
  destruct (dd_head (Z.to_N z)) as [b [r [E _]]]. rewrite E. discriminate.
Qed.

(* ---- a datetime cell is never read back as a number ---- *)
Lemma parse_int_with_Z : forall A R, In 90%N R -> parse_int (A ++ 45%N :: R) = None.
Proof.
  intros A R Hin. assert (is_digit 90 = false) as H90 by reflexivity.
  destruct A as [|a A'].
  - cbn [app]. unfold parse_int. change ((45 =? 45)%N) with true. cbn [orb].
    rewrite (parse_digits_bad R 90%N Hin H90). reflexivity.
  - cbn [app]. unfold parse_int.
    assert (In 90%N (A' ++ 45%N :: R)) as H1 by (apply in_or_app; right; right; exact Hin).
    destruct ((a =? 45)%N || (a =? 43)%N).
    + rewrite (parse_digits_bad _ 90%N H1 H90). reflexivity.
    + rewrite (parse_digits_bad (a :: A' ++ 45%N :: R) 90%N (or_intror H1) H90). reflexivity.
Qed.

Lemma date_not_int : forall v, parse_int (render_date v) = None.
Proof.
  intro v. unfold render_date. destruct (civil (Z.quot v 1000 / 86400)) as [[y m] d].
  cbn [app]. apply parse_int_with_Z.
  do 4 (apply in_or_app; right; right).
  apply in_or_app; right. left. reflexivity.
Qed.

(* ================================================================== quoting and reading back *)
Section Quoting.
Open Scope N_scope.

Definition plain (f : bytes) : Prop := Forall (fun b => b <> 44 /\ b <> 34 /\ b <> 13 /\ b <> 10) f.
Definition delim (d : N) : Prop := d = 44 \/ d = 10.

Definition prepend (f : bytes) (p : pres) : pres :=
  match p with PRec c m r => PRec (f ++ c) m r | PErr e => PErr e end.
Definition at_delim (d : N) (t : bytes) : pres :=
  if d =? 44 then pfield (parse SStart t) else PRec [] [] t.

Lemma prepend_nil : forall p, prepend [] p = p.
Proof. destruct p; reflexivity. Qed.
Lemma prepend_cons : forall b f p, pcons b (prepend f p) = prepend (b :: f) p.
Proof. destruct p; reflexivity. Qed.

Lemma needs_quotes_plain : forall f, needs_quotes f = false -> plain f.
Proof.
  intros f H. destruct f as [|b r]; [constructor|].
  unfold needs_quotes in H. apply orb_false_iff in H. destruct H as [H _].
  apply orb_false_iff in H. destruct H as [_ H].
  unfold plain. apply Forall_forall. intros x Hin.
  assert (is_special x = false) as Hx.
  { apply not_true_is_false. intro Ht.
    assert (existsb is_special (b :: r) = true) as He by (apply existsb_exists; exists x; tauto).
    rewrite He in H. discriminate. }
  unfold is_special in Hx. repeat (apply orb_false_iff in Hx; destruct Hx as [Hx ?]).
  repeat split; apply N.eqb_neq; assumption.
Qed.

Lemma parse_delim_unq : forall d t, delim d -> parse SUnq (d :: t) = at_delim d t.
Proof. intros d t [Hd|Hd]; subst d; reflexivity. Qed.
Lemma parse_delim_start : forall d t, delim d -> parse SStart (d :: t) = at_delim d t.
Proof. intros d t [Hd|Hd]; subst d; reflexivity. Qed.
Lemma parse_delim_qq : forall d t, delim d -> parse SQQ (d :: t) = at_delim d t.
Proof. intros d t [Hd|Hd]; subst d; reflexivity. Qed.

Lemma parse_step_unq : forall st b r, (st = SStart \/ st = SUnq) -> b <> 44 -> b <> 34 -> b <> 10 ->
  parse st (b :: r) = pcons b (parse SUnq r).
Proof.
  intros st b r Hst H44 H34 H10.
  apply N.eqb_neq in H44. apply N.eqb_neq in H34. apply N.eqb_neq in H10.
  destruct Hst; subst st; cbn [parse]; rewrite H34, H44, H10; reflexivity.
Qed.

Lemma parse_plain_unq : forall f d t, plain f -> delim d ->
  parse SUnq (f ++ d :: t) = prepend f (at_delim d t).
Proof.
  induction f as [|b f IH]; intros d t Hp Hd.
  - cbn [app]. rewrite prepend_nil. apply parse_delim_unq. exact Hd.
  - inversion Hp as [|? ? [H44 [H34 [_ H10]]] Hp']; subst.
    cbn [app]. rewrite parse_step_unq by auto. rewrite IH by assumption. apply prepend_cons.
Qed.

Lemma parse_plain_start : forall f d t, plain f -> delim d ->
  parse SStart (f ++ d :: t) = prepend f (at_delim d t).
Proof.
  intros f d t Hp Hd. destruct f as [|b f].
  - cbn [app]. rewrite prepend_nil. apply parse_delim_start. exact Hd.
  - inversion Hp as [|? ? [H44 [H34 [_ H10]]] Hp']; subst.
    cbn [app]. rewrite parse_step_unq by auto. rewrite parse_plain_unq by assumption. apply prepend_cons.
Qed.

Lemma parse_quoted : forall f d t, delim d ->
  parse SQ (qbody f ++ 34 :: d :: t) = prepend f (at_delim d t).
Proof.
  induction f as [|b f IH]; intros d t Hd.
  - cbn [qbody app parse]. change (34 =? 34) with true. cbv iota. rewrite prepend_nil.
    apply parse_delim_qq. exact Hd.
  - cbn [qbody]. destruct (b =? 34) eqn:E.
    + apply N.eqb_eq in E. subst b. cbn [app parse]. change (34 =? 34) with true. cbv iota.
      rewrite IH by assumption. apply prepend_cons.
    + cbn [app parse]. rewrite E. rewrite IH by assumption. apply prepend_cons.
Qed.

Lemma parse_field : forall f d t, delim d ->
  parse SStart (render_field f ++ d :: t) = prepend f (at_delim d t).
Proof.
  intros f d t Hd. unfold render_field. destruct (needs_quotes f) eqn:E.
  - cbn [app]. rewrite <- app_assoc. cbn [app parse]. change (34 =? 34) with true. cbv iota.
    apply parse_quoted. exact Hd.
  - apply parse_plain_start; [apply needs_quotes_plain; exact E|exact Hd].
Qed.

Lemma render_fields_cons2 : forall f g fs,
  render_fields (f :: g :: fs) = render_field f ++ 44 :: render_fields (g :: fs).
Proof. reflexivity. Qed.

Lemma parse_fields : forall fs f t, parse SStart (render_fields (f :: fs) ++ 10 :: t) = PRec f fs t.
Proof.
  induction fs as [|g fs IH]; intros f t.
  - cbn [render_fields]. rewrite parse_field by (right; reflexivity).
    unfold at_delim. change (10 =? 44) with false. cbv iota. cbn [prepend]. rewrite app_nil_r. reflexivity.
  - rewrite render_fields_cons2. rewrite <- app_assoc. cbn [app].
    rewrite parse_field by (left; reflexivity).
    unfold at_delim. change (44 =? 44) with true. cbv iota. rewrite IH. cbn [pfield prepend].
    rewrite app_nil_r. reflexivity.
Qed.

(* the first byte of a visible record's line is not LF *)
Lemma render_record_head : forall r t, invisible r = false ->
  exists b rest, render_record r ++ t = b :: rest /\ b <> 10.
Proof.
  intros r t Hv. destruct r as [|f fs]; [discriminate|].
  unfold render_record.
  assert (forall X, exists b rest, (render_field f ++ X) ++ [10] ++ t = b :: rest /\ b <> 10 \/ (f = [] /\ True)) as Hgen.
  { intro X. unfold render_field. destruct (needs_quotes f) eqn:E.
    - exists 34. eexists. left. cbn [app]. split; [reflexivity|discriminate].
    - destruct f as [|x f'].
      + exists 0. exists []. right. tauto.
      + pose proof (needs_quotes_plain _ E) as Hp. inversion Hp as [|? ? [_ [_ [_ H10]]] _]; subst.
        exists x. eexists. left. cbn [app]. split; [reflexivity|exact H10]. }
  destruct fs as [|g fs].
  - destruct f as [|x f']; [discriminate|].
    destruct (Hgen []) as [b [rest [[H1 H2]|[H1 _]]]]; [|discriminate].
    exists b, rest. split; [|exact H2]. cbn [render_fields]. rewrite app_nil_r in H1.
    rewrite <- app_assoc. exact H1.
  - rewrite render_fields_cons2.
    destruct f as [|x f'].
    + exists 44. eexists. split; [reflexivity|discriminate].
    + destruct (Hgen (44 :: render_fields (g :: fs))) as [b [rest [[H1 H2]|[H1 _]]]]; [|discriminate].
      exists b, rest. split; [|exact H2]. rewrite <- app_assoc. exact H1.
Qed.

Lemma skip_empty_head : forall b r, b <> 10 -> skip_empty (b :: r) = b :: r.
Proof. intros b r H. apply N.eqb_neq in H. cbn [skip_empty]. rewrite H. reflexivity. Qed.

Lemma read_record_render : forall r t, invisible r = false ->
  read_record (render_record r ++ t) = RRec r t.
Proof.
  intros r t Hv. destruct (render_record_head r t Hv) as [b [rest [E Hb]]].
  unfold read_record. rewrite E, skip_empty_head by exact Hb. rewrite <- E.
  destruct r as [|f fs]; [discriminate|].
  unfold render_record. rewrite <- app_assoc. cbn [app]. rewrite parse_fields. reflexivity.
Qed.

(* ---- line-end normalisation leaves rendered text alone ---- *)
Lemma norm_cons : forall x t, x <> 13 -> norm_input (x :: t) = x :: norm_input t.
Proof.
  intros x t H. apply N.eqb_neq in H. destruct t as [|c r]; cbn [norm_input]; rewrite H; reflexivity.
Qed.

Lemma norm_cr : forall c r, c <> 10 -> norm_input (13 :: c :: r) = 13 :: norm_input (c :: r).
Proof.
  intros c r H. apply N.eqb_neq in H.
  change (norm_input (13 :: c :: r)) with
    (if (13 =? 13) && (c =? 10) then norm_input (c :: r) else 13 :: norm_input (c :: r)).
  rewrite H. reflexivity.
Qed.

Lemma norm_plain : forall f t, Forall (fun b => b <> 13) f -> norm_input (f ++ t) = f ++ norm_input t.
Proof.
  induction f as [|x f IH]; intros t Hf; [reflexivity|].
  inversion Hf; subst. cbn [app]. rewrite norm_cons by assumption. rewrite IH by assumption. reflexivity.
Qed.

Lemma has_crlf_cons : forall x c r, has_crlf (x :: c :: r) = false ->
  (x = 13 -> c <> 10) /\ has_crlf (c :: r) = false.
Proof.
  intros x c r H. cbn [has_crlf] in H. apply orb_false_iff in H. destruct H as [H1 H2].
  split; [|exact H2]. intros Hx Hc. subst. discriminate.
Qed.

Lemma norm_qbody : forall f t, has_crlf f = false ->
  norm_input (qbody f ++ 34 :: t) = qbody f ++ norm_input (34 :: t).
Proof.
  induction f as [|x f IH]; intros t Hf; [reflexivity|].
  assert (has_crlf f = false) as Hf'.
  { destruct f as [|c r]; [reflexivity|]. apply (has_crlf_cons x c r Hf). }
  cbn [qbody]. destruct (x =? 34) eqn:E34.
  - cbn [app]. remember (norm_input (34 :: t)) as R eqn:ER.
    rewrite !norm_cons by discriminate. rewrite IH by exact Hf'. subst R. reflexivity.
  - cbn [app]. destruct (N.eq_dec x 13) as [Hx|Hx].
    + subst x. destruct f as [|c r].
      * cbn [qbody app]. rewrite norm_cr by discriminate. reflexivity.
      * destruct (has_crlf_cons 13 c r Hf) as [Hc _]. specialize (Hc eq_refl).
        specialize (IH t Hf'). cbn [qbody] in IH |- *. destruct (c =? 34).
        -- cbn [app] in IH |- *. rewrite norm_cr by discriminate. rewrite IH. reflexivity.
        -- cbn [app] in IH |- *. rewrite norm_cr by exact Hc. rewrite IH. reflexivity.
    + rewrite norm_cons by exact Hx. rewrite IH by exact Hf'. reflexivity.
Qed.

Lemma norm_field : forall f t, has_crlf f = false ->
  norm_input (render_field f ++ t) = render_field f ++ norm_input t.
Proof.
  intros f t Hf. unfold render_field. destruct (needs_quotes f) eqn:E.
  - cbn [app]. rewrite <- app_assoc. cbn [app]. rewrite norm_cons by discriminate.
    rewrite norm_qbody by exact Hf. rewrite norm_cons by discriminate.
    rewrite <- app_assoc. reflexivity.
  - apply norm_plain. pose proof (needs_quotes_plain _ E) as Hp.
    eapply Forall_impl; [|exact Hp]. cbv beta. tauto.
Qed.

Lemma norm_fields : forall fs t, Forall (fun f => has_crlf f = false) fs ->
  norm_input (render_fields fs ++ t) = render_fields fs ++ norm_input t.
Proof.
  induction fs as [|f fs IH]; intros t Hfs; [reflexivity|].
  inversion Hfs; subst. destruct fs as [|g fs].
  - cbn [render_fields]. apply norm_field. assumption.
  - rewrite render_fields_cons2. rewrite <- app_assoc. cbn [app]. rewrite norm_field by assumption.
    rewrite norm_cons by discriminate. rewrite IH by assumption.
    rewrite <- app_assoc. reflexivity.
Qed.

Definition fields_ok (r : list bytes) : Prop := Forall (fun f => has_crlf f = false) r.

Lemma record_ok_split : forall r, record_ok r = true -> invisible r = false /\ fields_ok r.
Proof.
  intros r H. unfold record_ok in H. apply andb_true_iff in H. destruct H as [H1 H2].
  split; [apply negb_true_iff; exact H1|].
  unfold fields_ok. apply Forall_forall. intros f Hin. rewrite forallb_forall in H2.
  apply negb_true_iff. apply H2. exact Hin.
Qed.

Lemma norm_record : forall r t, fields_ok r ->
  norm_input (render_record r ++ t) = render_record r ++ norm_input t.
Proof.
  intros r t Hr. unfold render_record. rewrite <- !app_assoc. rewrite norm_fields by exact Hr.
  cbn [app]. rewrite norm_cons by discriminate. reflexivity.
Qed.

Lemma norm_records : forall rs t, Forall fields_ok rs ->
  norm_input (render_records rs ++ t) = render_records rs ++ norm_input t.
Proof.
  induction rs as [|r rs IH]; intros t Hrs; [reflexivity|].
  inversion Hrs; subst. unfold render_records in *. cbn [map concat]. rewrite <- app_assoc.
  rewrite norm_record by assumption. rewrite IH by assumption. rewrite <- app_assoc. reflexivity.
Qed.

Lemma render_record_length : forall r, (1 <= length (render_record r))%nat.
Proof. intro r. unfold render_record. rewrite app_length. cbn [length]. lia. Qed.

Lemma read_all_fuel_render : forall rs fuel, Forall (fun r => invisible r = false) rs ->
  (length (render_records rs) < fuel)%nat ->
  read_all_fuel fuel (render_records rs) = (rs, None).
Proof.
  induction rs as [|r rs IH]; intros fuel Hrs Hfuel.
  - destruct fuel as [|f]; [inversion Hfuel|]. reflexivity.
  - inversion Hrs; subst. destruct fuel as [|f]; [inversion Hfuel|].
    unfold render_records in *. cbn [map concat] in *. cbn [read_all_fuel].
    rewrite read_record_render by assumption.
    rewrite IH; [reflexivity|assumption|].
    rewrite app_length in Hfuel. pose proof (render_record_length r). lia.
Qed.

(* reading back what the writer wrote gives the records *)
Lemma quote_roundtrip : forall rs, Forall (fun r => record_ok r = true) rs ->
  read_all (render_records rs) = (rs, None).
Proof.
  intros rs Hrs. unfold read_all.
  assert (Forall fields_ok rs /\ Forall (fun r => invisible r = false) rs) as [H1 H2].
  { split; eapply Forall_impl; try exact Hrs; intros r Hr; apply (record_ok_split r Hr). }
  assert (norm_input (render_records rs) = render_records rs) as Hn.
  { pose proof (norm_records rs [] H1) as Hn. cbn [norm_input] in Hn. rewrite !app_nil_r in Hn. exact Hn. }
  rewrite Hn.
  apply read_all_fuel_render; [exact H2|lia].
Qed.

End Quoting.

(* ================================================================== WriteCSV *)
Section Write.

Definition const_count (n : nat) (cs : list chunk) : Prop := Forall (fun c => nmetrics c = n) cs.

Lemma render_records_app : forall a b, render_records (a ++ b) = render_records a ++ render_records b.
Proof. intros. unfold render_records. rewrite map_app, concat_app. reflexivity. Qed.

Lemma render_records_cons : forall r rs, render_records (r :: rs) = render_record r ++ render_records rs.
Proof. reflexivity. Qed.

Lemma write_loop_const : forall cs n, const_count n cs ->
  write_loop (Some n) cs = (render_records (flat_map chunk_records cs), false).
Proof.
  induction cs as [|c r IH]; intros n Hc; [reflexivity|].
  inversion Hc as [|? ? Hc1 Hc2]; subst. cbn [write_loop flat_map].
  rewrite Nat.eqb_refl. cbn [negb]. rewrite (IH (nmetrics c) Hc2).
  rewrite render_records_app. reflexivity.
Qed.

(* constant metric count: header line of the first chunk's keys, then the rows
   of every sample of every chunk in order; no error *)
Lemma write_const : forall c cs n, const_count n (c :: cs) ->
  write_csv (c :: cs) = (render_records (field_names c :: flat_map chunk_records (c :: cs)), false).
Proof.
  intros c cs n Hc. inversion Hc as [|? ? Hc1 Hc2]; subst.
  unfold write_csv. cbn [write_loop].
  rewrite (write_loop_const cs (nmetrics c) Hc2).
  rewrite render_records_cons. cbn [flat_map]. rewrite render_records_app. reflexivity.
Qed.

Lemma write_loop_error : forall pre c post n, const_count n pre -> nmetrics c <> n ->
  write_loop (Some n) (pre ++ c :: post) = (render_records (flat_map chunk_records pre), true).
Proof.
  induction pre as [|p pre IH]; intros c post n Hc Hd.
  - cbn [app write_loop flat_map].
    destruct (Nat.eqb n (nmetrics c)) eqn:E1; [apply Nat.eqb_eq in E1; congruence|]. reflexivity.
  - inversion Hc as [|? ? Hc1 Hc2]; subst. cbn [app write_loop flat_map].
    rewrite Nat.eqb_refl. cbn [negb]. rewrite (IH c post (nmetrics p) Hc2 Hd).
    rewrite render_records_app. reflexivity.
Qed.

(* a chunk whose metric count differs from the count so far: an error, and exactly
   the header and the rows of the earlier chunks have been written *)
Lemma write_error : forall p pre c post n, const_count n (p :: pre) -> nmetrics c <> n ->
  write_csv ((p :: pre) ++ c :: post) = (fst (write_csv (p :: pre)), true).
Proof.
  intros p pre c post n Hc Hd. rewrite (write_const p pre n Hc). cbn [fst].
  inversion Hc as [|? ? Hc1 Hc2]; subst.
  unfold write_csv. cbn [app write_loop].
  rewrite (write_loop_error pre c post (nmetrics p) Hc2 Hd).
  rewrite render_records_cons. cbn [flat_map]. rewrite render_records_app. reflexivity.
Qed.

(* the cells of a row: the integer table rendered column type by column type *)
Lemma record_of_cells : forall c i,
  record_of c i = map (fun tv => cell (fst tv) (snd tv)) (combine (chunk_types c) (sample_row c i)).
Proof.
  intros c i. unfold record_of, chunk_types, sample_row.
  induction (ck_metrics c) as [|mv r IH]; [reflexivity|].
  cbn [map combine fst snd]. rewrite IH. reflexivity.
Qed.

Lemma cell_int : forall t v, t <> MDate -> cell t v = render_int v.
Proof. intros t v H. destruct t; try reflexivity. congruence. Qed.

Lemma has_date_false : forall c, has_date c = false -> Forall (fun t => t <> MDate) (chunk_types c).
Proof.
  intros c H. unfold has_date in H. apply Forall_forall. intros t Hin Ht. subst t.
  assert (existsb (fun t => match t with MDate => true | _ => false end) (chunk_types c) = true) as He.
  { apply existsb_exists. exists MDate. split; [exact Hin|reflexivity]. }
  rewrite He in H. discriminate.
Qed.

Lemma record_of_ints : forall c i, has_date c = false -> record_of c i = map render_int (sample_row c i).
Proof.
  intros c i H. pose proof (has_date_false c H) as Hf. unfold chunk_types in Hf.
  unfold record_of, sample_row. induction (ck_metrics c) as [|mv r IH]; [reflexivity|].
  cbn [map] in Hf |- *. inversion Hf; subst. rewrite cell_int by assumption. rewrite IH by assumption. reflexivity.
Qed.

Lemma chunk_records_ints : forall c, has_date c = false ->
  chunk_records c = map (map render_int) (chunk_int_rows c).
Proof.
  intros c H. unfold chunk_records, chunk_int_rows. rewrite map_map.
  apply map_ext. intro i. apply record_of_ints. exact H.
Qed.

End Write.

(* ================================================================== DumpCSV *)
Section Dump.

Definition file_of (g : list chunk) : text :=
  render_records (field_names (hd (mkChunk [] 0 None None []) g) :: flat_map chunk_records g).

Definition rows_of (g : list chunk) : text := render_records (flat_map chunk_records g).

Lemma file_of_cons : forall c g, file_of (c :: g) = render_record (field_names c) ++ rows_of (c :: g).
Proof. intros. unfold file_of, rows_of. cbn [hd]. unfold render_records. reflexivity. Qed.

Lemma rows_of_cons : forall c g, rows_of (c :: g) = render_records (chunk_records c) ++ rows_of g.
Proof. intros. unfold rows_of. cbn [flat_map]. apply render_records_app. Qed.

(* shape of the grouping of a non-empty list *)
Lemma gbc_cons : forall c r, exists g gs, group_by_count (c :: r) = (c :: g) :: gs.
Proof.
  intros c r. cbn [group_by_count]. destruct (group_by_count r) as [|[|c' g] gs].
  - eexists. eexists. reflexivity.
  - eexists. eexists. reflexivity.
  - destruct (Nat.eqb (nmetrics c) (nmetrics c')); eexists; eexists; reflexivity.
Qed.

Lemma gbc_nil_inv : forall cs, group_by_count cs = [] -> cs = [].
Proof. intros [|c r] H; [reflexivity|]. destruct (gbc_cons c r) as [g [gs E]]. congruence. Qed.

Definition dump_spec (n : nat) (cs : list chunk) : text * list text :=
  match group_by_count cs with
  | [] => ([], [])
  | g :: gs =>
      if Nat.eqb (nmetrics (hd (mkChunk [] 0 None None []) g)) n
      then (rows_of g, map file_of gs) else ([], map file_of (g :: gs))
  end.

Lemma dump_loop_spec : forall cs n, dump_loop (Some n) cs = dump_spec n cs.
Proof.
  induction cs as [|c r IH]; intros n; [reflexivity|].
  (* what continuing with c's own count gives *)
  assert (forall t fs, dump_loop (Some (nmetrics c)) r = (t, fs) ->
          exists g gs, group_by_count (c :: r) = (c :: g) :: gs /\
                       render_records (chunk_records c) ++ t = rows_of (c :: g) /\ fs = map file_of gs) as Hcont.
  { intros t fs Hd. rewrite (IH (nmetrics c)) in Hd. unfold dump_spec in Hd.
    cbn [group_by_count]. destruct (group_by_count r) as [|[|c' g] gs] eqn:Eg.
    - inversion Hd; subst. exists [], []. split; [reflexivity|]. rewrite (rows_of_cons c). split; reflexivity.
    - (* impossible: groups are never empty *)
      destruct r as [|c2 r2]; [discriminate|]. destruct (gbc_cons c2 r2) as [g2 [gs2 E2]]. congruence.
    - cbn [hd] in Hd. rewrite Nat.eqb_sym in Hd.
      destruct (Nat.eqb (nmetrics c) (nmetrics c')) eqn:E.
      + inversion Hd; subst. exists (c' :: g), gs. split; [reflexivity|].
        rewrite (rows_of_cons c). split; reflexivity.
      + inversion Hd; subst. exists [], ((c' :: g) :: gs). split; [reflexivity|].
        rewrite (rows_of_cons c). split; reflexivity. }
  cbn [dump_loop].
  destruct (dump_loop (Some (nmetrics c)) r) as [t fs] eqn:Ed.
  destruct (Hcont t fs eq_refl) as [g [gs [Eg [Et Efs]]]].
  unfold dump_spec. rewrite Eg. cbn [hd].
  destruct (Nat.eqb n (nmetrics c)) eqn:E1.
  - apply Nat.eqb_eq in E1. subst n. rewrite Nat.eqb_refl. cbn [negb].
    rewrite Ed. rewrite Et, Efs. reflexivity.
  - cbn [negb]. rewrite Nat.eqb_sym, E1. cbn [map]. rewrite file_of_cons, <- Et, Efs.
    rewrite <- app_assoc. reflexivity.
Qed.

(* one file per run of equal metric count, each made of the header of its first
   chunk and the rows of its chunks *)
Lemma dump_files : forall cs, dump_csv cs = map file_of (group_by_count cs).
Proof.
  intros [|c r]; [reflexivity|].
  unfold dump_csv. cbn [dump_loop].
  rewrite (dump_loop_spec r (nmetrics c)). unfold dump_spec.
  cbn [group_by_count]. destruct (group_by_count r) as [|[|c' g] gs] eqn:Eg.
  - cbn [map]. rewrite file_of_cons, rows_of_cons. unfold rows_of. cbn [flat_map].
    rewrite <- app_assoc. reflexivity.
  - destruct r as [|c2 r2]; [discriminate|]. destruct (gbc_cons c2 r2) as [g2 [gs2 E2]]. congruence.
  - cbn [hd]. rewrite Nat.eqb_sym. destruct (Nat.eqb (nmetrics c) (nmetrics c')) eqn:E.
    + cbn [map]. rewrite file_of_cons, (rows_of_cons c). rewrite <- app_assoc. reflexivity.
    + cbn [map]. rewrite (file_of_cons c), (rows_of_cons c). unfold rows_of at 1. cbn [flat_map].
      rewrite <- app_assoc. reflexivity.
Qed.

(* the grouping: a partition into non-empty runs of constant count, and two
   neighbouring runs have different counts *)
Fixpoint adjacent_differ (gs : list (list chunk)) : Prop :=
  match gs with
  | g1 :: ((g2 :: _) as r) =>
      nmetrics (hd (mkChunk [] 0 None None []) g1) <> nmetrics (hd (mkChunk [] 0 None None []) g2) /\ adjacent_differ r
  | _ => True
  end.

Lemma gbc_spec : forall cs,
  concat (group_by_count cs) = cs /\
  Forall (fun g => g <> [] /\ const_count (nmetrics (hd (mkChunk [] 0 None None []) g)) g) (group_by_count cs) /\
  adjacent_differ (group_by_count cs).
Proof.
  induction cs as [|c r [IH1 [IH2 IH3]]]; [repeat split; constructor|].
  cbn [group_by_count]. destruct (group_by_count r) as [|[|c' g] gs] eqn:Eg.
  - apply gbc_nil_inv in Eg. subst r. split; [reflexivity|split; [|exact I]].
    constructor; [|constructor]. split; [discriminate|]. constructor; [reflexivity|constructor].
  - destruct r as [|c2 r2]; [discriminate|]. destruct (gbc_cons c2 r2) as [g2 [gs2 E2]]. congruence.
  - pose proof (Forall_inv IH2) as [_ Hg]. pose proof (Forall_inv_tail IH2) as Hgs. cbn [hd] in Hg.
    destruct (Nat.eqb (nmetrics c) (nmetrics c')) eqn:E.
    + apply Nat.eqb_eq in E. split; [|split].
      * cbn [concat app] in IH1 |- *. rewrite <- IH1. reflexivity.
      * constructor; [|exact Hgs]. split; [discriminate|]. cbn [hd]. constructor; [reflexivity|].
        rewrite E. exact Hg.
      * destruct gs as [|g2 gs']; [exact I|]. cbn [adjacent_differ hd] in IH3 |- *.
        destruct IH3 as [A B]. split; [rewrite E; exact A|exact B].
    + apply Nat.eqb_neq in E. split; [|split].
      * cbn [concat app] in IH1 |- *. rewrite <- IH1. reflexivity.
      * constructor; [|exact IH2]. split; [discriminate|]. constructor; [reflexivity|constructor].
      * cbn [adjacent_differ hd]. split; [exact E|exact IH3].
Qed.

End Dump.

(* ================================================================== ConvertFromCSV *)
Section Convert.

Lemma no13_no_crlf : forall f, Forall (fun b => b <> 13%N) f -> has_crlf f = false.
Proof.
  induction f as [|b r IH]; intro H; [reflexivity|].
  inversion H as [|? ? Hb Hr]; subst. destruct r as [|c r']; [reflexivity|].
  change (has_crlf (b :: c :: r')) with (((b =? 13)%N && (c =? 10)%N) || has_crlf (c :: r')).
  rewrite (IH Hr). apply N.eqb_neq in Hb. rewrite Hb. reflexivity.
Qed.

Lemma render_int_no13 : forall z, Forall (fun b => b <> 13%N) (render_int z).
Proof.
  intro z.
  assert (forall n, Forall (fun b => b <> 13%N) (dec_digits n)) as Hd.
  { intro n. pose proof (dd_digits 40 n [] eq_refl) as H. fold (dec_digits n) in H.
    rewrite forallb_forall in H. apply Forall_forall. intros b Hin Hb. subst b.
    specialize (H _ Hin). discriminate. }
  unfold render_int. destruct (z <? 0)%Z; [constructor; [discriminate|]|]; apply Hd.
Qed.

Lemma int_row_ok : forall zs, zs <> [] -> record_ok (map render_int zs) = true.
Proof.
  intros zs Hne. unfold record_ok. apply andb_true_iff. split.
  - apply negb_true_iff. destruct zs as [|z zs']; [congruence|]. cbn [map].
    pose proof (render_int_nonempty z) as Hz. destruct (render_int z) as [|b r]; [congruence|].
    destruct zs'; reflexivity.
  - apply forallb_forall. intros f Hin. apply in_map_iff in Hin. destruct Hin as [z [Hz _]]. subst f.
    apply negb_true_iff. apply no13_no_crlf. apply render_int_no13.
Qed.

Lemma cv_loop_render : forall rows fuel h,
  Forall (fun r => invisible r = false /\ length r = length h) rows ->
  (length (render_records rows) < fuel)%nat ->
  cv_loop fuel (length h) h (render_records rows) = (map (cell_doc h) rows, CvOk).
Proof.
  induction rows as [|r rows IH]; intros fuel h Hrows Hfuel.
  - destruct fuel as [|f]; [inversion Hfuel|]. reflexivity.
  - inversion Hrows as [|? ? [Hv Hl] Hrest]; subst. destruct fuel as [|f]; [inversion Hfuel|].
    rewrite render_records_cons in Hfuel |- *. cbn [cv_loop].
    rewrite read_record_render by exact Hv. rewrite Hl, Nat.eqb_refl. cbn [negb].
    rewrite IH; [reflexivity|exact Hrest|].
    rewrite app_length in Hfuel. pose proof (render_record_length r). lia.
Qed.

Lemma cv_docs_render : forall h rows, record_ok h = true ->
  Forall (fun r => record_ok r = true /\ length r = length h) rows ->
  cv_docs (render_records (h :: rows)) = (map (cell_doc h) rows, CvOk).
Proof.
  intros h rows Hh Hrows. unfold cv_docs.
  assert (Forall fields_ok (h :: rows)) as Hf.
  { constructor; [apply (record_ok_split h Hh)|].
    eapply Forall_impl; [|exact Hrows]. intros r [Hr _]. apply (record_ok_split r Hr). }
  assert (norm_input (render_records (h :: rows)) = render_records (h :: rows)) as Hn.
  { pose proof (norm_records (h :: rows) [] Hf) as Hn. cbn [norm_input] in Hn. rewrite !app_nil_r in Hn. exact Hn. }
  rewrite Hn. rewrite render_records_cons.
  rewrite read_record_render by apply (record_ok_split h Hh).
  apply cv_loop_render; [|lia].
  eapply Forall_impl; [|exact Hrows]. intros r [Hr Hl]. split; [apply (record_ok_split r Hr)|exact Hl].
Qed.

Lemma cell_doc_ints : forall h zs, Forall (fun z => in_i64 z = true) zs ->
  cell_doc h (map render_int zs) = combine h (map VInt64 zs).
Proof.
  induction h as [|k h IH]; intros zs Hz; [reflexivity|].
  destruct zs as [|z zs]; [reflexivity|]. inversion Hz; subst.
  cbn [map cell_doc combine]. rewrite parse_render_int by assumption. rewrite IH by assumption. reflexivity.
Qed.

Lemma flat_map_map {A B C} (f : B -> C) (g : A -> list B) (l : list A) :
  map f (flat_map g l) = flat_map (fun x => map f (g x)) l.
Proof. induction l as [|x r IH]; [reflexivity|]. cbn [flat_map]. rewrite map_app, IH. reflexivity. Qed.

Lemma sample_row_length : forall c i, length (sample_row c i) = nmetrics c.
Proof. intros. unfold sample_row, nmetrics. apply map_length. Qed.

Lemma int_rows_lengths : forall cs n, const_count n cs -> Forall (fun r => length r = n) (int_rows cs).
Proof.
  intros cs n Hc. unfold int_rows. apply Forall_forall. intros r Hin.
  apply in_flat_map in Hin. destruct Hin as [c [Hc1 Hc2]].
  unfold chunk_int_rows in Hc2. apply in_map_iff in Hc2. destruct Hc2 as [i [Hi _]]. subst r.
  rewrite sample_row_length. unfold const_count in Hc. rewrite Forall_forall in Hc. apply Hc. exact Hc1.
Qed.

Lemma all_rows_ints : forall cs, Forall (fun c => has_date c = false) cs ->
  flat_map chunk_records cs = map (map render_int) (int_rows cs).
Proof.
  intros cs Hd. unfold int_rows. rewrite flat_map_map.
  induction Hd as [|x l Hx Hl IH]; [reflexivity|]. cbn [flat_map].
  rewrite chunk_records_ints by exact Hx. rewrite IH. reflexivity.
Qed.

(* the documents of the round trip: one per sample, the keys of the first chunk
   with the sample's values as int64 *)
Definition table_docs (ks : list bytes) (rows : list (list Z)) : list doc :=
  map (fun zs => combine ks (map VInt64 zs)) rows.

Lemma record_ok_nonempty : forall r, record_ok r = true -> length r <> O.
Proof. intros [|f r] H; [discriminate|]. discriminate. Qed.

Lemma roundtrip_docs : forall c cs n,
  const_count n (c :: cs) ->
  Forall (fun c' => has_date c' = false) (c :: cs) ->
  record_ok (field_names c) = true ->
  Forall (Forall (fun z => in_i64 z = true)) (int_rows (c :: cs)) ->
  cv_docs (fst (write_csv (c :: cs))) = (table_docs (field_names c) (int_rows (c :: cs)), CvOk).
Proof.
  intros c cs n Hc Hd Hk Hv.
  rewrite (write_const c cs n Hc). cbn [fst].
  rewrite (all_rows_ints (c :: cs) Hd).
  assert (length (field_names c) = n) as Hkl.
  { unfold field_names. rewrite map_length. inversion Hc; subst. reflexivity. }
  assert (n <> O) as Hn by (rewrite <- Hkl; apply record_ok_nonempty; exact Hk).
  pose proof (int_rows_lengths (c :: cs) n Hc) as Hlen.
  rewrite cv_docs_render; [|exact Hk|].
  - f_equal. unfold table_docs. rewrite map_map. apply map_ext_in. intros zs Hin.
    apply cell_doc_ints. rewrite Forall_forall in Hv. apply Hv. exact Hin.
  - apply Forall_forall. intros r Hin. apply in_map_iff in Hin. destruct Hin as [zs [Hz Hin]]. subst r.
    rewrite Forall_forall in Hlen. specialize (Hlen zs Hin). split.
    + apply int_row_ok. intro Hnil. subst zs. cbn [length] in Hlen. congruence.
    + rewrite map_length. congruence.
Qed.

End Convert.

(* ================================================================== statements as used in Props/C18.v *)
Lemma flat_map_concat {A B} (f : A -> list B) (gs : list (list A)) :
  flat_map (fun g => flat_map f g) gs = flat_map f (concat gs).
Proof.
  induction gs as [|g gs IH]; [reflexivity|]. cbn [flat_map concat]. rewrite flat_map_app, IH. reflexivity.
Qed.

Lemma write_all : forall c cs n,
  Forall (fun c' => nmetrics c' = n) (c :: cs) ->
  write_csv (c :: cs) = (render_records (field_names c :: flat_map chunk_records (c :: cs)), false) /\
  (forall c' i, record_of c' i =
                map (fun tv => cell (fst tv) (snd tv)) (combine (chunk_types c') (sample_row c' i))) /\
  (forall t v, t <> MDate -> cell t v = render_int v).
Proof.
  intros c cs n Hc. split; [exact (write_const c cs n Hc)|].
  split; [exact record_of_cells|exact cell_int].
Qed.

Lemma dump_all : forall cs,
  dump_csv cs = map file_of (group_by_count cs) /\
  concat (group_by_count cs) = cs /\
  Forall (fun g => g <> [] /\ Forall (fun c => nmetrics c = nmetrics (hd (mkChunk [] 0 None None []) g)) g)
         (group_by_count cs) /\
  adjacent_differ (group_by_count cs) /\
  flat_map (fun g => flat_map chunk_records g) (group_by_count cs) = flat_map chunk_records cs.
Proof.
  intros cs. destruct (gbc_spec cs) as [H1 [H2 H3]].
  split; [exact (dump_files cs)|]. split; [exact H1|]. split; [exact H2|]. split; [exact H3|].
  rewrite flat_map_concat, H1. reflexivity.
Qed.

Lemma roundtrip_all : forall c cs n,
  Forall (fun c' => nmetrics c' = n) (c :: cs) ->
  Forall (fun c' => has_date c' = false) (c :: cs) ->
  record_ok (field_names c) = true ->
  Forall (Forall (fun z => in_i64 z = true)) (int_rows (c :: cs)) ->
  snd (write_csv (c :: cs)) = false /\
  cv_docs (fst (write_csv (c :: cs))) = (table_docs (field_names c) (int_rows (c :: cs)), CvOk).
Proof.
  intros c cs n Hc Hd Hk Hv. split.
  - rewrite (write_const c cs n Hc). reflexivity.
  - exact (roundtrip_docs c cs n Hc Hd Hk Hv).
Qed.

(* ================================================================== composition with the FTDC codec (C08) *)
Section Compose.
Variable deflate : bytes -> bytes.
Variable inflate : bytes -> option bytes.
Hypothesis inflate_deflate : forall p, inflate (deflate p) = Some p.

Definition idoc (ks : list bytes) (zs : list Z) : doc := combine ks (map VInt64 zs).

Lemma idoc_flatten : forall ks zs, flatten_doc (idoc ks zs) = map (fun kz => (MInt64, snd kz)) (combine ks zs).
Proof.
  induction ks as [|k ks IH]; intros zs; [reflexivity|]. destruct zs as [|z zs]; [reflexivity|].
  unfold idoc in *. cbn [map combine flatten_doc flatten app snd]. rewrite IH. reflexivity.
Qed.

Lemma idoc_types : forall ks zs, length zs = length ks ->
  map fst (flatten_doc (idoc ks zs)) = repeat MInt64 (length ks).
Proof.
  intros ks zs Hl. rewrite idoc_flatten, map_map. cbn [fst].
  revert zs Hl. induction ks as [|k ks IH]; intros zs Hl; [reflexivity|].
  destruct zs as [|z zs]; [discriminate|]. cbn [combine map length repeat]. rewrite IH by (cbn [length] in Hl; lia). reflexivity.
Qed.

Lemma idoc_skeleton : forall ks zs, length zs = length ks ->
  skeleton_doc (idoc ks zs) = combine ks (repeat (VInt64 0) (length ks)).
Proof.
  induction ks as [|k ks IH]; intros zs Hl; [reflexivity|].
  destruct zs as [|z zs]; [discriminate|]. unfold idoc in *.
  cbn [map combine skeleton_doc skeleton zero_leaf length repeat]. rewrite IH by (cbn [length] in Hl; lia). reflexivity.
Qed.

Lemma idoc_strip : forall ks zs, strip_doc (idoc ks zs) = idoc ks zs.
Proof.
  induction ks as [|k ks IH]; intros zs; [reflexivity|]. destruct zs as [|z zs]; [reflexivity|].
  unfold idoc in *. cbn [map combine strip_doc strip]. rewrite IH. reflexivity.
Qed.

Lemma idoc_ok : forall ks zs, Forall (fun k => key_ok k = true) ks -> Forall (fun z => in_i64 z = true) zs ->
  doc_ok (idoc ks zs) = true /\ doc_leaves_ok (idoc ks zs) = true /\ doc_has_ts_seconds (idoc ks zs) = false.
Proof.
  induction ks as [|k ks IH]; intros zs Hk Hz; [repeat split|]. destruct zs as [|z zs]; [repeat split|].
  inversion Hk as [|? ? Hk1 Hk2]; subst. inversion Hz as [|? ? Hz1 Hz2]; subst.
  destruct (IH zs Hk2 Hz2) as [A [B C]]. unfold idoc in *.
  cbn [map combine doc_ok value_ok doc_leaves_ok leaves_ok doc_has_ts_seconds has_ts_seconds].
  rewrite Hk1, Hz1, A, B, C. repeat split.
Qed.

Lemma table_docs_ok : forall ks rows,
  Forall (fun k => key_ok k = true) ks ->
  Forall (fun r => length r = length ks) rows ->
  Forall (Forall (fun z => in_i64 z = true)) rows ->
  Forall (fun d => small (enc_doc d)) (table_docs ks rows) ->
  (N.of_nat (length ks) < 2 ^ 32)%N ->
  docs_ok KSDyn (table_docs ks rows).
Proof.
  intros ks rows Hk Hl Hv Hs Hn.
  assert (forall d, In d (table_docs ks rows) -> exists zs, d = idoc ks zs /\ length zs = length ks /\
                                                   Forall (fun z => in_i64 z = true) zs) as Hshape.
  { intros d Hin. unfold table_docs in Hin. apply in_map_iff in Hin. destruct Hin as [zs [Hd Hin]].
    exists zs. rewrite Forall_forall in Hl, Hv. split; [symmetry; exact Hd|]. split; [apply Hl|apply Hv]; exact Hin. }
  split; [|split].
  - apply Forall_forall. intros d Hin. destruct (Hshape d Hin) as [zs [Hd [Hlen Hz]]].
    destruct (idoc_ok ks zs Hk Hz) as [A [B C]]. subst d.
    split; [exact A|]. split; [exact B|]. split; [rewrite Forall_forall in Hs; apply Hs; exact Hin|].
    split; [exact C|]. rewrite idoc_flatten, map_length, combine_length, Hlen, Nat.min_id. exact Hn.
  - intros a b Ha Hb _ _. destruct (Hshape a Ha) as [za [-> [Hla _]]]. destruct (Hshape b Hb) as [zb [-> [Hlb _]]].
    rewrite !idoc_skeleton by assumption. reflexivity.
  - intros a b Ha Hb _. destruct (Hshape a Ha) as [za [-> [Hla _]]]. destruct (Hshape b Hb) as [zb [-> [Hlb _]]].
    rewrite !idoc_types by assumption. reflexivity.
Qed.

Lemma table_docs_strip : forall ks rows, map strip_doc (table_docs ks rows) = table_docs ks rows.
Proof.
  intros. unfold table_docs. rewrite map_map. apply map_ext. intro zs. apply idoc_strip.
Qed.

(* ---- the model's ConvertFromCSV feeds and flushes exactly like [emit] for KSDyn ---- *)
Lemma run_app : forall a b st,
  run deflate st (a ++ b) =
  let '(st1, o1) := run deflate st a in let '(st2, o2) := run deflate st1 b in (st2, o1 ++ o2).
Proof.
  induction a as [|x a IH]; intros b st.
  - cbn [app run]. destruct (run deflate st b). reflexivity.
  - cbn [app run]. destruct (step deflate st x) as [st' ob]. rewrite IH.
    destruct (run deflate st' a) as [st1 o1]. destruct (run deflate st1 b) as [st2 o2]. reflexivity.
Qed.

Lemma feed_run : forall docs nows c w st obs,
  length nows = length docs ->
  run deflate (CSDyn c, w) (add_ops docs nows) = (st, obs) ->
  obs = map (fun _ => BAdd ROk) docs ->
  exists c' w', st = (CSDyn c', w') /\ cv_feed deflate c w docs nows = (c', w', true).
Proof.
  induction docs as [|d docs IH]; intros nows c w st obs Hl Hrun Hobs.
  - destruct nows; [|discriminate]. cbn in Hrun. injection Hrun as Hst Ho. exists c, w. split; [symmetry; exact Hst|reflexivity].
  - destruct nows as [|t nows]; [discriminate|]. unfold add_ops in Hrun. cbn [combine map fst snd run step c_add] in Hrun.
    cbn [cv_feed hd tl].
    destruct (sd_add deflate c w d t) as [[c1 w1] r] eqn:Ea.
    fold (add_ops docs nows) in Hrun.
    destruct (run deflate (CSDyn c1, w1) (add_ops docs nows)) as [st2 o2] eqn:Er.
    injection Hrun as Hst Ho. rewrite <- Ho in Hobs. cbn [map] in Hobs. injection Hobs as Hr Ho2.
    rewrite Hr. rewrite <- Hst.
    apply (IH nows c1 w1 st2 o2); [cbn [length] in Hl; lia|exact Er|exact Ho2].
Qed.

Lemma convert_is_emit : forall t docs bucket nows,
  cv_docs t = (docs, CvOk) -> length nows = length docs ->
  snd (emit deflate KSDyn bucket docs nows) = map (fun _ => BAdd ROk) docs ++ [BFlush true] ->
  convert_from_csv deflate t bucket nows [] = (emitted (snd (fst (emit deflate KSDyn bucket docs nows))), false).
Proof.
  intros t docs bucket nows Hcv Hl Hobs. unfold convert_from_csv. rewrite Hcv.
  unfold emit in *. rewrite run_app in Hobs |- *. cbn [new_coll] in Hobs |- *.
  destruct (run deflate (CSDyn (mkSdcoll None 0 (mkScoll bucket 0 (IB (bc_new bucket)))), mkWriter [] [] false)
                (add_ops docs nows)) as [st1 o1] eqn:Er.
  destruct (run deflate st1 [OFlush]) as [st2 o2] eqn:Ef. cbn [snd fst] in Hobs |- *.
  cbn [run] in Ef. destruct (step deflate st1 OFlush) as [st3 ob] eqn:Es. inversion Ef; subst. clear Ef.
  apply app_inj_tail in Hobs. destruct Hobs as [Ho1 _].
  destruct (feed_run docs nows _ _ st1 o1 Hl Er Ho1) as [c' [w' [Hst Hfeed]]]. subst st1.
  rewrite Hfeed. cbn [step c_flush] in Es.
  destruct (sd_flush deflate c' w') as [[c2 w2] ok] eqn:Efl. inversion Es; subst. reflexivity.
Qed.

(* the round trip through the real pipeline: WriteCSV, ConvertFromCSV into a
   writer that does not fail, then the FTDC reader *)
Theorem roundtrip_reread : forall c cs n bucket nows,
  Forall (fun c' => nmetrics c' = n) (c :: cs) ->
  Forall (fun c' => has_date c' = false) (c :: cs) ->
  record_ok (field_names c) = true ->
  Forall (Forall (fun z => in_i64 z = true)) (int_rows (c :: cs)) ->
  Forall (fun k => key_ok k = true) (field_names c) ->
  (N.of_nat n < 2 ^ 32)%N ->
  Forall (fun d => small (enc_doc d)) (table_docs (field_names c) (int_rows (c :: cs))) ->
  (1 <= bucket < 2 ^ 31)%Z -> length nows = length (int_rows (c :: cs)) ->
  exists out d,
    convert_from_csv deflate (fst (write_csv (c :: cs))) bucket nows [] = (out, false) /\
    decode_ftdc inflate None out = Some d /\
    docs_eqb (dc_docs d) (table_docs (field_names c) (int_rows (c :: cs))) = true /\
    dc_sizes d = expected_sizes bucket (table_docs (field_names c) (int_rows (c :: cs))).
Proof.
  intros c cs n bucket nows Hc Hd Hk Hv Hkeys Hn32 Hsmall Hb Hl.
  pose proof (roundtrip_docs c cs n Hc Hd Hk Hv) as Hcv.
  set (ks := field_names c) in *. set (rows := int_rows (c :: cs)) in *.
  assert (length ks = n) as Hkl.
  { unfold ks, field_names. rewrite map_length. inversion Hc; subst. reflexivity. }
  assert (docs_ok KSDyn (table_docs ks rows)) as Hok.
  { apply table_docs_ok; try assumption.
    - rewrite Hkl. apply int_rows_lengths. exact Hc.
    - rewrite Hkl. exact Hn32. }
  assert (length nows = length (table_docs ks rows)) as Hl'.
  { unfold table_docs. rewrite map_length. exact Hl. }
  destruct (c08_dynamic deflate inflate inflate_deflate KSDyn bucket (table_docs ks rows) nows
              (or_intror eq_refl) Hb Hl' Hok) as [Hobs [d [Hdec Hc08]]].
  exists (emitted (snd (fst (emit deflate KSDyn bucket (table_docs ks rows) nows)))), d.
  split; [apply convert_is_emit; assumption|]. split; [exact Hdec|].
  unfold c08_ok in Hc08. apply andb_true_iff in Hc08. destruct Hc08 as [Hc08 Hsz].
  apply andb_true_iff in Hc08. destruct Hc08 as [_ Hdocs]. rewrite table_docs_strip in Hdocs.
  split; [exact Hdocs|].
  destruct (list_eq_dec Z.eq_dec (dc_sizes d) (expected_sizes bucket (table_docs ks rows))) as [E|E]; [exact E|discriminate].
Qed.

End Compose.

(* ================================================================== non-vacuity *)
Definition ex_metric (k : bytes) (t : mtype) : metric := mkMetric [] k t 0.
Definition ex_cA : chunk :=   (* keys  a,b  and  q QUOTE LF  ; two samples with extreme values *)
  mkChunk [(ex_metric [97; 44; 98]%N MInt64, [1; -2]%Z); (ex_metric [113; 34; 10]%N MDouble, [2 ^ 63 - 1; - 2 ^ 63]%Z)] 2 None None [].
Definition ex_cB : chunk :=   (* same count, keys " lead" and "" *)
  mkChunk [(ex_metric [32; 108]%N MBool, [1]%Z); (ex_metric [] MTs, [0]%Z)] 1 None None [].
Definition ex_cZ : chunk := mkChunk [] 2 None None [].   (* two samples of a document without metrics *)
Definition ex_cC : chunk :=   (* one metric *)
  mkChunk [(ex_metric [122]%N MInt32, [7; 8; 9]%Z)] 3 None None [].

Lemma csv_example :
  (* hypotheses of C18_write / C18_roundtrip / C18_roundtrip_reread hold for [cA; cB] *)
  Forall (fun c' => nmetrics c' = 2%nat) [ex_cA; ex_cB] /\
  Forall (fun c' => has_date c' = false) [ex_cA; ex_cB] /\
  record_ok (field_names ex_cA) = true /\
  Forall (Forall (fun z => in_i64 z = true)) (int_rows [ex_cA; ex_cB]) /\
  Forall (fun k => key_ok k = true) (field_names ex_cA) /\
  Forall (fun d => small (enc_doc d)) (table_docs (field_names ex_cA) (int_rows [ex_cA; ex_cB])) /\
  (* and the statements are not empty: three rows, the text quotes both keys *)
  int_rows [ex_cA; ex_cB] = [[1; 2 ^ 63 - 1]; [-2; - 2 ^ 63]; [1; 0]]%Z /\
  firstn 14 (fst (write_csv [ex_cA; ex_cB])) = [34; 97; 44; 98; 34; 44; 34; 113; 34; 34; 10; 34; 10; 49]%N /\
  (* hypotheses of C18_write_error and C18_dump: a count change after two chunks, then back *)
  nmetrics ex_cC <> 2%nat /\
  snd (write_csv [ex_cA; ex_cB; ex_cC; ex_cA]) = true /\
  group_by_count [ex_cA; ex_cB; ex_cC; ex_cA] = [[ex_cA; ex_cB]; [ex_cC]; [ex_cA]] /\
  length (dump_csv [ex_cA; ex_cB; ex_cC; ex_cA]) = 3%nat /\
  (* a chunk without metrics followed by one with metrics: an error / a new file *)
  write_csv [ex_cZ; ex_cA] = ([10; 10; 10]%N, true) /\ length (dump_csv [ex_cZ; ex_cA]) = 2%nat.
Proof.
  split; [repeat constructor|]. split; [repeat constructor|]. split; [vm_compute; reflexivity|].
  split; [repeat constructor|]. split; [repeat constructor|].
  split; [repeat constructor; unfold small; vm_compute; reflexivity|].
  split; [vm_compute; reflexivity|]. split; [vm_compute; reflexivity|].
  split; [vm_compute; discriminate|].
  split; [vm_compute; reflexivity|]. split; [vm_compute; reflexivity|]. split; [vm_compute; reflexivity|].
  split; vm_compute; reflexivity.
Qed.

(* ---- the two known findings (behaviour of encoding/csv) as statements about the
   faithful model: outside [record_ok] the round trip fails ---- *)
Definition ex_cE : chunk :=   (* one metric with the empty key *)
  mkChunk [(ex_metric [] MInt64, [5; 6]%Z)] 2 None None [].
Definition ex_cR : chunk :=   (* one metric whose key is  a CR LF b *)
  mkChunk [(ex_metric [97; 13; 10; 98]%N MInt64, [1; 2]%Z)] 2 None None [].

Lemma lone_empty_key_refuted :
  record_ok (field_names ex_cE) = false /\
  write_csv [ex_cE] = ([10; 53; 10; 54; 10]%N, false) /\
  cv_docs (fst (write_csv [ex_cE])) = ([[([53]%N, VInt64 6)]], CvOk) /\
  cv_docs (fst (write_csv [ex_cE])) <> (table_docs (field_names ex_cE) (int_rows [ex_cE]), CvOk).
Proof.
  split; [vm_compute; reflexivity|]. split; [vm_compute; reflexivity|].
  split; [vm_compute; reflexivity|]. vm_compute. discriminate.
Qed.

Lemma key_crlf_refuted :
  record_ok (field_names ex_cR) = false /\
  fst (write_csv [ex_cR]) = [34; 97; 13; 10; 98; 34; 10; 49; 10; 50; 10]%N /\
  cv_docs (fst (write_csv [ex_cR])) = ([[([97; 10; 98]%N, VInt64 1)]; [([97; 10; 98]%N, VInt64 2)]], CvOk) /\
  cv_docs (fst (write_csv [ex_cR])) <> (table_docs (field_names ex_cR) (int_rows [ex_cR]), CvOk).
Proof.
  split; [vm_compute; reflexivity|]. split; [vm_compute; reflexivity|].
  split; [vm_compute; reflexivity|]. vm_compute. discriminate.
Qed.
