(* C07: the log property after every operation of every history, reachable states,
   rejected Adds. *)
From Coq Require Import ZArith NArith List Bool Lia Arith.
From FV.Model Require Import Bytes Bson Metrics Codec Collector Wf RoundTrip CollectorOk.
From FV.Proofs Require Import BytesProofs BsonProofs MetricsProofs CodecChunk CodecProofs CollectorBase
  CollectorKinds CollectorInv.
Import ListNotations.
Open Scope Z_scope.

Lemma obs_add_ok_false : forall r, r <> ROk -> obs_add_ok (BAdd r) = false.
Proof. intros [] H; try reflexivity. congruence. Qed.

Lemma c07_step_ok : forall (cap : Z) (total total' : list doc) (o : opk) (add_ok : bool) (d : doc) (wd rd : decoded) (info : Z),
  total' = match o with
           | KAdd => if add_ok then total ++ [strip_doc d] else total
           | KReset => firstn (length (dc_docs wd)) total
           | _ => total
           end ->
  dc_docs wd ++ dc_docs rd = total' ->
  info = Z.of_nat (length total') - Z.of_nat (length (dc_docs wd)) ->
  forallb (fun s => s <=? cap) (dc_sizes wd ++ dc_sizes rd) = true ->
  c07_step cap total o add_ok d wd rd info = (total', true).
Proof.
  intros cap total total' o add_ok d wd rd info Ht Hdocs Hinfo Hsz. unfold c07_step.
  rewrite <- Ht, Hdocs, cb_docs_eqb_refl, Hsz, Hinfo, Z.eqb_refl. reflexivity.
Qed.

Section Log.
Variable deflate : bytes -> bytes.
Variable inflate : bytes -> option bytes.
Hypothesis inflate_deflate : forall p, inflate (deflate p) = Some p.
Variable D : doc -> Prop.

Definition op_ok (o : op) : Prop := match o with OAdd d _ => D d | _ => True end.

Lemma contents_flushed : forall gsw gsp : list (list doc), contents (gsw ++ gsp) [] = contents gsw gsp.
Proof. intros gsw gsp. unfold contents. rewrite concat_app. cbn [concat]. apply app_nil_r. Qed.

Lemma inv_step : forall k n st gsw gsp o, compressing k = true -> env_ok D k -> 1 <= n ->
  INV deflate D k n st gsw gsp -> op_ok o ->
  exists gsw' gsp', INV deflate D k n (fst (step deflate st o)) gsw' gsp' /\
    match o with
    | OAdd d _ => if obs_add_ok (snd (step deflate st o)) then contents gsw' gsp' = contents gsw gsp ++ [d]
                  else fst (step deflate st o) = st /\ gsw' = gsw /\ gsp' = gsp
    | OAddBad => obs_add_ok (snd (step deflate st o)) = false /\ contents gsw' gsp' = contents gsw gsp /\
                 (k <> KStream -> fst (step deflate st o) = st)
    | OReset => gsw' = gsw /\ gsp' = []
    | _ => contents gsw' gsp' = contents gsw gsp
    end.
Proof.
  intros k n [c w] gsw gsp o Hk Henv Hn Hinv Hop. destruct o as [d now| | | | |m|]; cbn [step].
  - destruct (inv_add deflate D k n c w gsw gsp d now Hk Henv Hn Hinv Hop) as (c' & w' & r & Hadd & Hcase).
    rewrite Hadd. cbn [fst snd]. destruct Hcase as [(Er & gsw' & gsp' & Hinv' & Hcont)|(Hr & Ec & Ew)].
    + subst r. exists gsw', gsp'. split; [exact Hinv'|exact Hcont].
    + subst c' w'. exists gsw, gsp. split; [exact Hinv|]. rewrite (obs_add_ok_false r Hr).
      repeat split.
  - destruct (inv_add_bad deflate D k n c w gsw gsp Hk Henv Hn Hinv) as (c' & w' & r & Hadd & Hr & Hsame & gsw' & gsp' & Hinv' & Hcont).
    rewrite Hadd. cbn [fst snd]. exists gsw', gsp'. split; [exact Hinv'|].
    split; [apply obs_add_ok_false; exact Hr|]. split; [exact Hcont|].
    intros Hks. destruct (Hsame Hks) as [-> ->]. reflexivity.
  - exists gsw, gsp. split; [exact Hinv|reflexivity].
  - exists gsw, []. cbn [fst]. split; [|split; reflexivity].
    destruct Hinv as (Hf & Hw & Hc). split; [exact Hf|]. split; [exact Hw|].
    cbn [fst]. apply (holds_reset D k n c gsp Hn Hc).
  - destruct (inv_flush deflate D k n c w gsw gsp Henv Hn Hinv) as (c' & w' & Hfl & Hinv' & _).
    rewrite Hfl. cbn [fst]. exists (gsw ++ gsp), []. split; [exact Hinv'|apply contents_flushed].
  - exists gsw, gsp. cbn [fst]. split; [|reflexivity].
    destruct Hinv as (Hf & Hw & Hc). split; [exact Hf|]. split; [exact Hw|].
    cbn [fst]. apply holds_set_meta. exact Hc.
  - destruct (c_info c) as [mi si]. exists gsw, gsp. split; [exact Hinv|reflexivity].
Qed.

Lemma forallb_app' : forall (f : Z -> bool) a b, forallb f a = true -> forallb f b = true -> forallb f (a ++ b) = true.
Proof. intros f a b Ha Hb. rewrite forallb_app, Ha, Hb. reflexivity. Qed.

Lemma inv_check : forall k n st gsw gsp, compressing k = true -> env_ok D k -> 1 <= n < 2 ^ 31 ->
  INV deflate D k n st gsw gsp ->
  exists wd rd, decode_ftdc inflate None (emitted (snd st)) = Some wd /\
    decode_out inflate None (c_resolve deflate (fst st)) = Some rd /\
    dc_docs wd = map strip_doc (concat gsw) /\ dc_docs rd = map strip_doc (concat gsp) /\
    dc_sizes wd = map glen gsw /\ dc_sizes rd = map glen gsp /\
    forallb (fun s => s <=? cap_of k n) (dc_sizes wd ++ dc_sizes rd) = true /\
    snd (c_info (fst st)) = glen (concat gsp).
Proof.
  intros k n [c w] gsw gsp Hk Henv Hn (Hf & Hw & Hc). cbn [fst snd] in *.
  assert (Hm : cap_of k n - 1 < 2 ^ 31) by (destruct k; cbn [cap_of]; lia).
  assert (Hcap : forall gs out, wstream deflate (cap_of k n - 1) out gs ->
                 forallb (fun s => s <=? cap_of k n) (map glen gs) = true).
  { intros gs out H. replace (cap_of k n) with (cap_of k n - 1 + 1) by lia.
    apply glen_bound. apply (wstream_lens deflate _ out). exact H. }
  destruct (decode_wstream deflate inflate inflate_deflate _ _ _ Hm Hw) as [metas Hdw].
  eexists. rewrite Hdw.
  destruct gsp as [|g gsp'].
  - rewrite (holds_resolve_nil deflate D k n c Hc). cbn [decode_out]. eexists.
    split; [reflexivity|]. split; [reflexivity|]. cbn [dc_docs dc_sizes].
    split; [reflexivity|]. split; [reflexivity|]. split; [reflexivity|]. split; [reflexivity|].
    split; [rewrite app_nil_r; apply (Hcap _ _ Hw)|apply (holds_info deflate D k n c [] Henv Hc)].
  - destruct (holds_resolve deflate D k n c _ Henv Hc ltac:(discriminate)) as [out [Hres Hws]].
    rewrite Hres. cbn [decode_out].
    destruct (decode_wstream deflate inflate inflate_deflate _ _ _ Hm Hws) as [metas' Hdr]. rewrite Hdr.
    eexists. split; [reflexivity|]. split; [reflexivity|]. cbn [dc_docs dc_sizes].
    split; [reflexivity|]. split; [reflexivity|]. split; [reflexivity|]. split; [reflexivity|].
    split; [apply forallb_app'; [apply (Hcap _ _ Hw)|apply (Hcap _ _ Hws)]|apply (holds_info deflate D k n c _ Henv Hc)].
Qed.

Lemma inv_init : forall k n, compressing k = true -> 1 <= n ->
  INV deflate D k n (new_coll k n, mkWriter [] [] false) [] [].
Proof.
  intros k n Hk Hn. split; [reflexivity|]. split; [constructor|]. cbn [fst]. apply holds_init; assumption.
Qed.

Lemma c07_from : forall k n, compressing k = true -> env_ok D k -> 1 <= n < 2 ^ 31 ->
  forall ops st gsw gsp, INV deflate D k n st gsw gsp -> Forall op_ok ops ->
  c07_run_from deflate inflate None (cap_of k n) st (map strip_doc (contents gsw gsp)) ops = true.
Proof.
  intros k n Hk Henv Hn. induction ops as [|o ops IH]; intros st gsw gsp Hinv Hops; [reflexivity|].
  inversion Hops as [|x y Hop Hops']; subst.
  destruct (inv_step k n st gsw gsp o Hk Henv ltac:(lia) Hinv Hop) as (gsw' & gsp' & Hinv' & Hrel).
  cbn [c07_run_from]. destruct (step deflate st o) as [st' ob] eqn:Est. cbn [fst snd] in *.
  destruct (inv_check k n st' gsw' gsp' Hk Henv Hn Hinv') as (wd & rd & Hdw & Hdr & Hwdocs & Hrdocs & _ & _ & Hsz & Hinfo).
  rewrite Hdw, Hdr.
  assert (Hstep : c07_step (cap_of k n) (map strip_doc (contents gsw gsp)) (opk_of o) (obs_add_ok ob) (op_doc o) wd rd
                    (snd (c_info (fst st'))) = (map strip_doc (contents gsw' gsp'), true)).
  { apply c07_step_ok; try assumption.
    - destruct o as [d now| | | | |m|]; cbn [opk_of op_doc].
      + destruct (obs_add_ok ob).
        * rewrite Hrel, map_app. reflexivity.
        * destruct Hrel as (_ & -> & ->). reflexivity.
      + destruct Hrel as (-> & -> & _). reflexivity.
      + rewrite Hrel. reflexivity.
      + destruct Hrel as [-> ->]. rewrite Hwdocs. unfold contents. cbn [concat]. rewrite app_nil_r.
        symmetry. apply cb_firstn_map_app.
      + rewrite Hrel. reflexivity.
      + rewrite Hrel. reflexivity.
      + rewrite Hrel. reflexivity.
    - rewrite Hwdocs, Hrdocs. unfold contents. rewrite map_app. reflexivity.
    - rewrite Hinfo, Hwdocs. unfold contents, glen. rewrite !map_length, app_length. lia. }
  rewrite Hstep. cbn [andb]. apply IH; assumption.
Qed.

(* every state of a history satisfies the invariant *)
Lemma run_inv : forall k n, compressing k = true -> env_ok D k -> 1 <= n ->
  forall ops st gsw gsp, INV deflate D k n st gsw gsp -> Forall op_ok ops ->
  exists gsw' gsp', INV deflate D k n (fst (run deflate st ops)) gsw' gsp'.
Proof.
  intros k n Hk Henv Hn. induction ops as [|o ops IH]; intros st gsw gsp Hinv Hops.
  - exists gsw, gsp. exact Hinv.
  - inversion Hops as [|x y Hop Hops']; subst.
    destruct (inv_step k n st gsw gsp o Hk Henv Hn Hinv Hop) as (gsw' & gsp' & Hinv' & _).
    cbn [run]. destruct (step deflate st o) as [st' ob]. cbn [fst] in Hinv'.
    destruct (IH st' gsw' gsp' Hinv' Hops') as (gsw'' & gsp'' & Hinv'').
    destruct (run deflate st' ops) as [st'' bs]. exists gsw'', gsp''. exact Hinv''.
Qed.

Lemma inv_contents : forall k n st gsw gsp, compressing k = true -> env_ok D k -> 1 <= n < 2 ^ 31 ->
  INV deflate D k n st gsw gsp -> c07_contents deflate inflate st = Some (map strip_doc (contents gsw gsp)).
Proof.
  intros k n st gsw gsp Hk Henv Hn Hinv.
  destruct (inv_check k n st gsw gsp Hk Henv Hn Hinv) as (wd & rd & Hdw & Hdr & Hwdocs & Hrdocs & _).
  unfold c07_contents. rewrite Hdw, Hdr, Hwdocs, Hrdocs. unfold contents. rewrite map_app. reflexivity.
Qed.

End Log.

(* ------------------------------------------------------------------ from ops_ok *)
Lemma ops_ok_env : forall k ops, ops_ok k ops -> env_ok (ops_added ops) k.
Proof. intros k ops [Hwf Hdist]. split; assumption. Qed.

Lemma ops_ok_each : forall ops sub, (forall o, In o sub -> In o ops) -> Forall (op_ok (ops_added ops)) sub.
Proof.
  intros ops sub Hsub. apply Forall_forall. intros o Ho. destruct o as [d now| | | | |m|]; cbn [op_ok]; try exact I.
  exists now. apply Hsub. exact Ho.
Qed.

Section Thms.
Variable deflate : bytes -> bytes.
Variable inflate : bytes -> option bytes.
Hypothesis inflate_deflate : forall p, inflate (deflate p) = Some p.

Theorem c07_log : forall k n ops, compressing k = true -> 1 <= n < 2 ^ 31 -> ops_ok k ops ->
  c07_run deflate inflate None k n ops = true.
Proof.
  intros k n ops Hk Hn Hok. unfold c07_run.
  apply (c07_from deflate inflate inflate_deflate (ops_added ops) k n Hk (ops_ok_env k ops Hok) Hn ops _ [] []).
  - apply inv_init; [exact Hk|lia].
  - apply ops_ok_each. intros o Ho. exact Ho.
Qed.

Lemma reach_inv : forall k n ops sub, compressing k = true -> 1 <= n -> ops_ok k ops ->
  (forall o, In o sub -> In o ops) ->
  exists gsw gsp, INV deflate (ops_added ops) k n (c07_reach deflate k n sub) gsw gsp.
Proof.
  intros k n ops sub Hk Hn Hok Hsub. unfold c07_reach.
  apply (run_inv deflate (ops_added ops) k n Hk (ops_ok_env k ops Hok) Hn sub _ [] []).
  - apply inv_init; assumption.
  - apply ops_ok_each. exact Hsub.
Qed.

(* a rejected Add changes nothing *)
Theorem c07_rejected_add : forall k n ops o, compressing k = true -> 1 <= n < 2 ^ 31 -> ops_ok k (ops ++ [o]) ->
  (o = OAddBad \/ exists d now, o = OAdd d now) ->
  let st := c07_reach deflate k n ops in
  let st' := fst (step deflate st o) in
  obs_add_ok (snd (step deflate st o)) = false ->
  (exists l, c07_contents deflate inflate st = Some l /\ c07_contents deflate inflate st' = Some l) /\
  (k <> KStream \/ o <> OAddBad -> st' = st).
Proof.
  intros k n ops o Hk Hn Hok Ho st st' Hrej. subst st st'.
  pose proof (ops_ok_env _ _ Hok) as Henv.
  destruct (reach_inv k n (ops ++ [o]) ops Hk ltac:(lia) Hok) as (gsw & gsp & Hinv).
  { intros x Hx. apply in_or_app. left. exact Hx. }
  assert (Hop : op_ok (ops_added (ops ++ [o])) o).
  { destruct o as [d now| | | | |m|]; cbn [op_ok]; try exact I. exists now. apply in_or_app. right. left. reflexivity. }
  destruct (inv_step deflate (ops_added (ops ++ [o])) k n _ gsw gsp o Hk Henv ltac:(lia) Hinv Hop) as (gsw' & gsp' & Hinv' & Hrel).
  rewrite (inv_contents deflate inflate inflate_deflate _ k n _ gsw gsp Hk Henv Hn Hinv).
  rewrite (inv_contents deflate inflate inflate_deflate _ k n _ gsw' gsp' Hk Henv Hn Hinv').
  destruct Ho as [->|(d & now & ->)].
  - destruct Hrel as (_ & Hcont & Hsame). split.
    + eexists. split; [reflexivity|]. rewrite Hcont. reflexivity.
    + intros [Hks|Hne]; [apply Hsame; exact Hks|congruence].
  - rewrite Hrej in Hrel. destruct Hrel as (Hst & -> & ->). split.
    + eexists. split; reflexivity.
    + intros _. exact Hst.
Qed.

(* Resolve and Info are read-only *)
Theorem c07_resolve_readonly : forall st,
  step deflate st OResolve = (st, BResolve (c_resolve deflate (fst st))) /\
  fst (step deflate st OInfo) = st /\
  snd (step deflate st OInfo) = BInfo (fst (c_info (fst st))) (snd (c_info (fst st))).
Proof.
  intros [c w]. cbn [step fst snd]. split; [reflexivity|]. destruct (c_info c) as [m s]. split; reflexivity.
Qed.

End Thms.
