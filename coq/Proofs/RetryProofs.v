(* C09, retry after a refused write.  A caller that re-issues an Add whose flush
   met a writer that refused the call outright (fault FError: nothing consumed,
   error returned) ends in the state of the run on a writer that never fails.

   The caller ([add_retry], [adds_with_retry_gen]) is defined here; the facts
   about Add it rests on ([c_add_shape]):
     - an Add performs at most one Write, and whether / what it writes depends on
       the collector and the document only;
     - when the Write is refused the collector is returned unchanged with RFlush
       (FlushCollector resets only after a complete write; the streaming dynamic
       collector records the new schema only after a successful flush);
     - when no Write happens and the answer is RFlush (Resolve failed) the
       collector is unchanged as well; after a successful Write the answer is
       never RFlush.
   They need the light invariant [kc_inv] (count >= 0, and count = 0 only with an
   empty wrapped collector), which holds from construction through Adds for every
   kind and every batch size; no hypothesis on the documents. *)
From Coq Require Import ZArith NArith List Bool Lia Arith.
From FV.Model Require Import Bytes Bson Metrics Codec Collector FrameOk.
From FV.Proofs Require Import FrameStream.
Import ListNotations.
Open Scope Z_scope.

(* ------------------------------------------------------------------ the retrying caller *)
Definition is_rflush (b : obs) : bool := match b with BAdd RFlush => true | _ => false end.

(* leading refusals of a fault schedule, all refusals of a schedule *)
Fixpoint lead_err (fs : list fault) : nat :=
  match fs with FError :: r => S (lead_err r) | _ => O end.
Fixpoint n_ferror (fs : list fault) : nat :=
  match fs with [] => O | FError :: r => S (n_ferror r) | _ :: r => n_ferror r end.

(* no two refusals in a row *)
Fixpoint no_adj_err (fs : list fault) : bool :=
  match fs with
  | [] => true
  | f :: r => match f, r with FError, FError :: _ => false | _, _ => no_adj_err r end
  end.

Lemma ares_eq_flush : forall r : ares, r = RFlush \/ r <> RFlush.
Proof. intros []; (left; reflexivity) || (right; discriminate). Qed.

Section Retry.
Variable deflate : bytes -> bytes.

(* Add d; while the answer is the flush-failure answer, Add d again: at most
   [fuel] further attempts *)
Fixpoint add_retry (fuel : nat) (st : coll * writer) (d : doc) (now : Z) : (coll * writer) * obs :=
  let '(st', b) := step deflate st (OAdd d now) in
  match fuel with
  | O => (st', b)
  | S f => if is_rflush b then add_retry f st' d now else (st', b)
  end.

(* every document through [add_retry]; the number of further attempts allowed
   for a document is computed from the writer's remaining fault schedule *)
Fixpoint adds_with_retry_gen (fuel_of : list fault -> nat) (st : coll * writer) (ds : list (doc * Z))
  : (coll * writer) * list obs :=
  match ds with
  | [] => (st, [])
  | (d, now) :: r =>
      let '(st', b) := add_retry (fuel_of (w_faults (snd st))) st d now in
      let '(st'', bs) := adds_with_retry_gen fuel_of st' r in (st'', b :: bs)
  end.

(* retry until the answer is no longer RFlush or the schedule holds no further
   refusal: fuel = number of FError entries left (+ 1 for the first attempt) *)
Definition adds_with_retry := adds_with_retry_gen n_ferror.
(* what harness/c09.go does: the same document once more *)
Definition adds_with_retry_once := adds_with_retry_gen (fun _ => 1%nat).

Definition add_ops_of (ds : list (doc * Z)) : list op := map (fun x => OAdd (fst x) (snd x)) ds.

(* ------------------------------------------------------------------ the invariant *)
Definition k_inv (s : scoll) : Prop :=
  0 <= sc_count s /\ (sc_count s = 0 -> snd (in_info (sc_inner s)) = 0).

Definition kc_inv (c : coll) : Prop :=
  match c with CStream s => k_inv s | CSDyn x => k_inv (sd_s x) | _ => True end.

Lemma kc_inv_new : forall k n, kc_inv (new_coll k n).
Proof.
  intros k n. destruct k; cbn [new_coll kc_inv]; try exact I;
    (split; [cbn [sc_count sd_s]; lia|intros _; reflexivity]).
Qed.

(* ------------------------------------------------------------------ the wrapped collector *)
Lemma of_add_res_not_flush : forall r, of_add_res r <> RFlush.
Proof. intros []; discriminate. Qed.

Lemma in_add_res : forall i d now i' r, in_add i d now = (i', r) ->
  r <> RFlush /\ (r <> ROk -> snd (in_info i') = snd (in_info i)).
Proof.
  intros [b|u] d now i' r H; cbn [in_add] in H.
  - destruct (bc_add b d now) as [b' r0] eqn:E. injection H as <- <-. split; [apply of_add_res_not_flush|].
    intros Hr. unfold bc_add in E. destruct (bc_ref b) as [rf|].
    + destruct (bc_max b <=? Z.of_nat (length (bc_rows b))); [injection E as <- <-; reflexivity|].
      destruct (negb (Nat.eqb (length (flatten_doc d)) (length (bc_last b)))); [injection E as <- <-; reflexivity|].
      destruct (negb (types_agree (flatten_doc d) (bc_last b))); [injection E as <- <-; reflexivity|].
      injection E as <- <-. exfalso. apply Hr. reflexivity.
    + injection E as <- <-. exfalso. apply Hr. reflexivity.
  - destruct (uc_add u d) as [u' r0] eqn:E. injection H as <- <-. unfold uc_add in E.
    destruct (negb (Z.of_nat (length d) =? (if uc_mcount u =? 0 then Z.of_nat (length d) else uc_mcount u))).
    { injection E as <- <-. split; [discriminate|intros _; reflexivity]. }
    destruct (uc_batch u <=? Z.of_nat (length (uc_samples u))).
    { injection E as <- <-. split; [discriminate|intros _; reflexivity]. }
    injection E as <- <-. split; [discriminate|]. intros Hr. exfalso. apply Hr. reflexivity.
Qed.

Lemma in_info_reset : forall i, snd (in_info (in_reset i)) = 0.
Proof. intros [b|u]; reflexivity. Qed.

(* the part of streamingCollector.Add after the flush-before-add *)
Definition sc_tail (s : scoll) (d : doc) (now : Z) : scoll * ares :=
  let '(i', r) := in_add (sc_inner s) d now in
  match r with
  | ROk => (mkScoll (sc_max s) (sc_count s + 1) i', ROk)
  | _ => (mkScoll (sc_max s) (sc_count s) i', r)
  end.

Lemma sc_tail_res : forall s d now, snd (sc_tail s d now) <> RFlush.
Proof.
  intros s d now. unfold sc_tail. destruct (in_add (sc_inner s) d now) as [i' r] eqn:E.
  destruct (in_add_res _ _ _ _ _ E) as [Hr _]. destruct r; cbn [snd]; congruence.
Qed.

Lemma sc_tail_inv : forall s d now, k_inv s -> k_inv (fst (sc_tail s d now)).
Proof.
  intros s d now [H0 Hz]. unfold sc_tail. destruct (in_add (sc_inner s) d now) as [i' r] eqn:E.
  destruct (in_add_res _ _ _ _ _ E) as [_ Hi].
  destruct r; cbn [fst]; unfold k_inv; cbn [sc_count sc_inner];
    try (split; [exact H0|]; intros Hc; rewrite Hi by discriminate; apply Hz; exact Hc).
  split; [lia|]. intros Hc. lia.
Qed.

Lemma sc_reset_inv : forall s, k_inv (sc_reset s).
Proof. intros s. unfold k_inv, sc_reset. cbn [sc_count sc_inner]. split; [lia|]. intros _. apply in_info_reset. Qed.

(* streamingCollector.Add without a flush *)
Lemma sc_add_noflush : forall s w d now, sc_max s <=? sc_count s = false ->
  sc_add deflate s w d now = (fst (sc_tail s d now), w, snd (sc_tail s d now)).
Proof.
  intros s w d now E. unfold sc_add, sc_tail. rewrite E. cbn [negb].
  destruct (in_add (sc_inner s) d now) as [i' r]. destruct r; reflexivity.
Qed.

Lemma sc_add_after : forall s1 (w1 : writer) d now,
  (let '(i', r) := in_add (sc_inner s1) d now in
   match r with
   | ROk => (mkScoll (sc_max s1) (sc_count s1 + 1) i', w1, ROk)
   | _ => (mkScoll (sc_max s1) (sc_count s1) i', w1, r)
   end) = (fst (sc_tail s1 d now), w1, snd (sc_tail s1 d now)).
Proof.
  intros s1 w1 d now. unfold sc_tail. destruct (in_add (sc_inner s1) d now) as [i' r]. destruct r; reflexivity.
Qed.

(* streamingCollector.Add on an empty wrapped collector never writes *)
Lemma sc_add_empty : forall s w d now, snd (in_info (sc_inner s)) = 0 ->
  sc_add deflate s w d now = (fst (sc_tail s d now), w, snd (sc_tail s d now)).
Proof.
  intros s w d now E. destruct (sc_max s <=? sc_count s) eqn:Ec; [|apply sc_add_noflush; exact Ec].
  unfold sc_add. rewrite Ec. unfold sc_flush, flush_with. rewrite E. cbn [Z.eqb negb]. apply sc_add_after.
Qed.

(* the three shapes of streamingCollector.Add *)
Lemma sc_add_shape : forall s d now,
  (forall w, sc_add deflate s w d now = (fst (sc_tail s d now), w, snd (sc_tail s d now))) \/
  (forall w, sc_add deflate s w d now = (s, w, RFlush)) \/
  (exists p, forall w,
     sc_add deflate s w d now =
       (if snd (w_write w p) then (fst (sc_tail (sc_reset s) d now), fst (w_write w p), snd (sc_tail (sc_reset s) d now))
        else (s, fst (w_write w p), RFlush))).
Proof.
  intros s d now. destruct (sc_max s <=? sc_count s) eqn:Ec; [|left; intros w; apply sc_add_noflush; exact Ec].
  destruct (snd (in_info (sc_inner s)) =? 0) eqn:Ei.
  { left. intros w. apply sc_add_empty. apply Z.eqb_eq. exact Ei. }
  destruct (in_resolve deflate (sc_inner s)) as [p|] eqn:Er.
  - right. right. exists p. intros w. unfold sc_add. rewrite Ec. unfold sc_flush, flush_with. rewrite Ei, Er.
    destruct (w_write w p) as [w' ok]. cbn [fst snd]. destruct ok; cbn [negb]; [apply sc_add_after|reflexivity].
  - right. left. intros w. unfold sc_add. rewrite Ec. unfold sc_flush, flush_with. rewrite Ei, Er. reflexivity.
Qed.

(* ------------------------------------------------------------------ one Add of any collector *)
(* whether and what an Add writes is decided by the collector and the document:
   either it never touches the writer ([c'], [r]; an RFlush answer then leaves
   the collector as it was), or it performs exactly one Write of [p] and
   continues to [c1], [r1] (never RFlush) if it is acknowledged and returns the
   unchanged collector with RFlush if it is not *)
Definition add_shape (c : coll) (d : doc) (now : Z) : Prop :=
  (exists c' r, (forall w, c_add deflate c w d now = (c', w, r)) /\ (r = RFlush -> c' = c) /\ kc_inv c') \/
  (exists p c1 r1, r1 <> RFlush /\ kc_inv c1 /\
     forall w, c_add deflate c w d now =
       (if snd (w_write w p) then (c1, fst (w_write w p), r1) else (c, fst (w_write w p), RFlush))).

Lemma ba_add_res : forall b d now, snd (ba_add b d now) <> RFlush.
Proof.
  intros b d now. unfold ba_add. destruct (ba_max b <=? snd (bc_info (last (ba_chunks b) (bc_new (ba_max b))))).
  - destruct (bc_add (bc_new (ba_max b)) d now) as [c' r]. cbn [snd]. apply of_add_res_not_flush.
  - destruct (bc_add (last (ba_chunks b) (bc_new (ba_max b))) d now) as [c' r]. cbn [snd]. apply of_add_res_not_flush.
Qed.

Lemma dy_add_res : forall x d now, snd (dy_add x d now) <> RFlush.
Proof.
  intros x d now. unfold dy_add. destruct (dy_hash x) as [h|].
  - destruct (bytes_eqb h (fst (schema_sig d))).
    + pose proof (ba_add_res (last (dy_chunks x) (ba_new (dy_max x))) d now) as H.
      destruct (ba_add (last (dy_chunks x) (ba_new (dy_max x))) d now) as [b' r]. exact H.
    + pose proof (ba_add_res (ba_new (dy_max x)) d now) as H.
      destruct (ba_add (ba_new (dy_max x)) d now) as [b' r]. exact H.
  - destruct (dy_chunks x) as [|b0 r0]; [discriminate|].
    pose proof (ba_add_res b0 d now) as H. destruct (ba_add b0 d now) as [b' r]. exact H.
Qed.

Lemma uc_add_res_nf : forall u d, snd (uc_add u d) <> RFlush.
Proof.
  intros u d. unfold uc_add.
  destruct (negb (Z.of_nat (length d) =? (if uc_mcount u =? 0 then Z.of_nat (length d) else uc_mcount u)));
    [discriminate|].
  destruct (uc_batch u <=? Z.of_nat (length (uc_samples u))); discriminate.
Qed.

(* streamingDynamicCollector.Add once the schema has been recorded in [c1] *)
Lemma sd_add_eq : forall c w d now,
  sd_add deflate c w d now =
  (let sig := fst (schema_sig d) in let num := snd (schema_sig d) in
   let changed := match sd_hash c with
                  | None => true
                  | Some h => negb (sd_mcount c =? num) || negb (bytes_eqb h sig)
                  end in
   let '(c1, w1, ok) :=
     if changed then
       let '(c', w', ok') := if 0 <? sc_count (sd_s c) then sd_flush deflate c w else (c, w, true) in
       if ok' then (mkSdcoll (Some sig) num (sd_s c'), w', true) else (c', w', false)
     else (c, w, true) in
   if negb ok then (c1, w1, RFlush)
   else let '(s', w2, r) := sc_add deflate (sd_s c1) w1 d now in
        (mkSdcoll (sd_hash c1) (sd_mcount c1) s', w2, r)).
Proof. intros c w d now. unfold sd_add. destruct (schema_sig d) as [sig num]. reflexivity. Qed.

Lemma sd_eta : forall c, mkSdcoll (sd_hash c) (sd_mcount c) (sd_s c) = c.
Proof. intros []; reflexivity. Qed.

Lemma c_add_shape : forall c d now, kc_inv c -> add_shape c d now.
Proof.
  intros c d now Hk. destruct c as [b|b|x|s|x|u].
  - left. destruct (bc_add b d now) as [b' r] eqn:E. exists (CBase b'), (of_add_res r).
    split; [intros w; cbn [c_add]; rewrite E; reflexivity|]. split; [|exact I].
    intros H. exfalso. exact (of_add_res_not_flush r H).
  - left. pose proof (ba_add_res b d now) as Hr. destruct (ba_add b d now) as [b' r] eqn:E. exists (CBatch b'), r.
    split; [intros w; cbn [c_add]; rewrite E; reflexivity|]. split; [|exact I]. intros H. exfalso. exact (Hr H).
  - left. pose proof (dy_add_res x d now) as Hr. destruct (dy_add x d now) as [x' r] eqn:E. exists (CDyn x'), r.
    split; [intros w; cbn [c_add]; rewrite E; reflexivity|]. split; [|exact I]. intros H. exfalso. exact (Hr H).
  - cbn [kc_inv] in Hk. destruct (sc_add_shape s d now) as [H|[H|[p H]]].
    + left. exists (CStream (fst (sc_tail s d now))), (snd (sc_tail s d now)).
      split; [intros w; cbn [c_add]; rewrite H; reflexivity|].
      split; [intros Hr; exfalso; exact (sc_tail_res s d now Hr)|]. cbn [kc_inv]. apply sc_tail_inv. exact Hk.
    + left. exists (CStream s), RFlush. split; [intros w; cbn [c_add]; rewrite H; reflexivity|].
      split; [reflexivity|exact Hk].
    + right. exists p, (CStream (fst (sc_tail (sc_reset s) d now))), (snd (sc_tail (sc_reset s) d now)).
      split; [apply sc_tail_res|]. split; [cbn [kc_inv]; apply sc_tail_inv; apply sc_reset_inv|].
      intros w. cbn [c_add]. rewrite H. destruct (snd (w_write w p)); reflexivity.
  - cbn [kc_inv] in Hk. pose proof Hk as [H0 Hz].
    set (sig := fst (schema_sig d)). set (num := snd (schema_sig d)).
    destruct (match sd_hash x with
              | None => true
              | Some h => negb (sd_mcount x =? num) || negb (bytes_eqb h sig)
              end) eqn:Ech.
    + (* schema change *)
      assert (Hempty : forall s0, snd (in_info (sc_inner s0)) = 0 -> k_inv s0 ->
                forall w, (let '(s', w2, r) := sc_add deflate s0 w d now in
                           (CSDyn (mkSdcoll (Some sig) num s'), w2, r)) =
                          (CSDyn (mkSdcoll (Some sig) num (fst (sc_tail s0 d now))), w, snd (sc_tail s0 d now))).
      { intros s0 Hi _ w. rewrite (sc_add_empty s0 w d now Hi). reflexivity. }
      destruct (0 <? sc_count (sd_s x)) eqn:Ecnt.
      * destruct (snd (in_info (sc_inner (sd_s x))) =? 0) eqn:Ei.
        { (* nothing to flush *)
          apply Z.eqb_eq in Ei. left.
          exists (CSDyn (mkSdcoll (Some sig) num (fst (sc_tail (sd_s x) d now)))), (snd (sc_tail (sd_s x) d now)).
          split; [|split; [intros Hr; exfalso; exact (sc_tail_res _ d now Hr)|cbn [kc_inv sd_s]; apply sc_tail_inv; exact Hk]].
          intros w. cbn [c_add]. rewrite sd_add_eq. fold sig num. cbv zeta. rewrite Ech, Ecnt.
          unfold sd_flush, flush_with. rewrite Ei. cbn [Z.eqb negb sd_s sd_hash sd_mcount].
          rewrite (sc_add_empty (sd_s x) w d now Ei). reflexivity. }
        destruct (in_resolve deflate (sc_inner (sd_s x))) as [p|] eqn:Er.
        { right. exists p, (CSDyn (mkSdcoll (Some sig) num (fst (sc_tail (sc_reset (sd_s x)) d now)))),
                        (snd (sc_tail (sc_reset (sd_s x)) d now)).
          split; [apply sc_tail_res|]. split; [cbn [kc_inv sd_s]; apply sc_tail_inv; apply sc_reset_inv|].
          intros w. cbn [c_add]. rewrite sd_add_eq. fold sig num. cbv zeta. rewrite Ech, Ecnt.
          unfold sd_flush, flush_with. rewrite Ei, Er. destruct (w_write w p) as [w' ok]. cbn [fst snd].
          destruct ok; cbn [negb sd_s sd_hash sd_mcount sd_reset]; [|reflexivity].
          rewrite (sc_add_empty (sc_reset (sd_s x)) w' d now (in_info_reset _)). reflexivity. }
        { left. exists (CSDyn x), RFlush. split; [|split; [reflexivity|exact Hk]].
          intros w. cbn [c_add]. rewrite sd_add_eq. fold sig num. cbv zeta. rewrite Ech, Ecnt.
          unfold sd_flush, flush_with. rewrite Ei, Er. reflexivity. }
      * (* count <= 0: by the invariant the wrapped collector is empty *)
        apply Z.ltb_ge in Ecnt. assert (Ei : snd (in_info (sc_inner (sd_s x))) = 0) by (apply Hz; lia).
        left. exists (CSDyn (mkSdcoll (Some sig) num (fst (sc_tail (sd_s x) d now)))), (snd (sc_tail (sd_s x) d now)).
        split; [|split; [intros Hr; exfalso; exact (sc_tail_res _ d now Hr)|cbn [kc_inv sd_s]; apply sc_tail_inv; exact Hk]].
        intros w. cbn [c_add]. rewrite sd_add_eq. fold sig num. cbv zeta. rewrite Ech.
        assert (E0 : 0 <? sc_count (sd_s x) = false) by (apply Z.ltb_ge; exact Ecnt). rewrite E0.
        cbn [negb sd_s sd_hash sd_mcount]. rewrite (sc_add_empty (sd_s x) w d now Ei). reflexivity.
    + (* same schema: the streaming collector's Add *)
      destruct (sc_add_shape (sd_s x) d now) as [H|[H|[p H]]].
      * left. exists (CSDyn (mkSdcoll (sd_hash x) (sd_mcount x) (fst (sc_tail (sd_s x) d now)))), (snd (sc_tail (sd_s x) d now)).
        split; [|split; [intros Hr; exfalso; exact (sc_tail_res _ d now Hr)|cbn [kc_inv sd_s]; apply sc_tail_inv; exact Hk]].
        intros w. cbn [c_add]. rewrite sd_add_eq. fold sig num. cbv zeta. rewrite Ech. cbn [negb]. rewrite H. reflexivity.
      * left. exists (CSDyn x), RFlush. split; [|split; [reflexivity|exact Hk]].
        intros w. cbn [c_add]. rewrite sd_add_eq. fold sig num. cbv zeta. rewrite Ech. cbn [negb]. rewrite H.
        rewrite sd_eta. reflexivity.
      * right. exists p, (CSDyn (mkSdcoll (sd_hash x) (sd_mcount x) (fst (sc_tail (sc_reset (sd_s x)) d now)))),
                      (snd (sc_tail (sc_reset (sd_s x)) d now)).
        split; [apply sc_tail_res|]. split; [cbn [kc_inv sd_s]; apply sc_tail_inv; apply sc_reset_inv|].
        intros w. cbn [c_add]. rewrite sd_add_eq. fold sig num. cbv zeta. rewrite Ech. cbn [negb]. rewrite H.
        destruct (snd (w_write w p)); [reflexivity|]. rewrite sd_eta. reflexivity.
  - left. pose proof (uc_add_res_nf u d) as Hr. destruct (uc_add u d) as [u' r] eqn:E. exists (CUnc u'), r.
    split; [intros w; cbn [c_add]; rewrite E; reflexivity|]. split; [|exact I]. intros H. exfalso. exact (Hr H).
Qed.

(* ------------------------------------------------------------------ C09_refused_write_is_noop *)
(* an Add during which the writer refused a Write (the log is as before, a fault
   was consumed) returns RFlush and the very same collector *)
Lemma refused_write_is_noop : forall c w d now r, kc_inv c -> w_faults w = FError :: r ->
  forall c' w' a, c_add deflate c w d now = (c', w', a) ->
  w' = w \/ (w' = mkWriter (w_log w) r (w_closed w) /\ c' = c /\ a = RFlush).
Proof.
  intros c w d now r Hk Hf c' w' a H. destruct (c_add_shape c d now Hk) as [(c1 & r1 & Heq & _)|(p & c1 & r1 & _ & _ & Heq)].
  - left. rewrite Heq in H. congruence.
  - right. rewrite Heq in H. unfold w_write in H. rewrite Hf in H. cbn [snd fst] in H. injection H as <- <- <-.
    repeat split.
Qed.

(* ------------------------------------------------------------------ the simulation *)
(* two writers with the same log contents, the second one never failing *)
Definition wsim (w w0 : writer) : Prop := w_log w = w_log w0 /\ w_faults w0 = [].

Definition drops (fs fs' : list fault) : Prop := exists pre, fs = pre ++ fs'.

Lemma drops_refl : forall fs, drops fs fs.
Proof. intros fs. exists []. reflexivity. Qed.

Lemma drops_cons : forall f fs fs', drops fs fs' -> drops (f :: fs) fs'.
Proof. intros f fs fs' [pre E]. exists (f :: pre). rewrite E. reflexivity. Qed.

Lemma drops_trans : forall a b c, drops a b -> drops b c -> drops a c.
Proof. intros a b c [p E] [q F]. exists (p ++ q). rewrite E, F, app_assoc. reflexivity. Qed.

Lemma add_retry_stuck : forall f c w d now,
  (forall w, c_add deflate c w d now = (c, w, RFlush)) ->
  add_retry f (c, w) d now = ((c, w), BAdd RFlush).
Proof.
  induction f as [|f IH]; intros c w d now H; cbn [add_retry step]; rewrite H; [reflexivity|].
  cbn [is_rflush]. apply IH. exact H.
Qed.

Lemma add_retry_done : forall f c w d now c' w' r, c_add deflate c w d now = (c', w', r) -> r <> RFlush ->
  add_retry f (c, w) d now = ((c', w'), BAdd r).
Proof.
  intros f c w d now c' w' r H Hr. destruct f as [|f]; cbn [add_retry step]; rewrite H; [reflexivity|].
  destruct r; try reflexivity. congruence.
Qed.

Lemma add_retry_sim : forall f c w w0 d now c0 w0' r0,
  kc_inv c -> wsim w w0 -> no_short (w_faults w) -> (lead_err (w_faults w) <= f)%nat ->
  c_add deflate c w0 d now = (c0, w0', r0) ->
  exists w', add_retry f (c, w) d now = ((c0, w'), BAdd r0) /\ wsim w' w0' /\
             drops (w_faults w) (w_faults w') /\ kc_inv c0.
Proof.
  intros f c w w0 d now c0 w0' r0 Hk Hsim Hns Hfuel H0.
  destruct (c_add_shape c d now Hk) as [(c1 & r1 & Heq & Hstuck & Hk1)|(p & c1 & r1 & Hr1 & Hk1 & Heq)].
  - (* no Write *)
    rewrite Heq in H0. injection H0 as <- <- <-. exists w.
    split; [|split; [exact Hsim|split; [apply drops_refl|exact Hk1]]].
    destruct (ares_eq_flush r1) as [E|E].
    + subst r1. rewrite (Hstuck eq_refl) in *. apply add_retry_stuck. exact Heq.
    + apply add_retry_done; [apply Heq|exact E].
  - (* one Write of p *)
    destruct Hsim as [Hlog Hf0].
    assert (E0 : w_write w0 p = (mkWriter (w_log w0 ++ [WFull p]) [] (w_closed w0), true)).
    { unfold w_write. rewrite Hf0. reflexivity. }
    rewrite Heq, E0 in H0. cbn [fst snd] in H0. injection H0 as <- <- <-.
    clear E0. revert w Hlog Hns Hfuel.
    induction f as [|f IH]; intros w Hlog Hns Hfuel.
    + destruct (w_faults w) as [|[| |m] r] eqn:Ef.
      * exists (mkWriter (w_log w ++ [WFull p]) [] (w_closed w)).
        split; [|split; [split; [cbn [w_log]; rewrite Hlog; reflexivity|reflexivity]|split; [cbn [w_faults]; exists []; reflexivity|exact Hk1]]].
        apply add_retry_done; [|exact Hr1]. rewrite Heq. unfold w_write. rewrite Ef. reflexivity.
      * exists (mkWriter (w_log w ++ [WFull p]) r (w_closed w)).
        split; [|split; [split; [cbn [w_log]; rewrite Hlog; reflexivity|reflexivity]|split; [cbn [w_faults]; exists [FNone]; reflexivity|exact Hk1]]].
        apply add_retry_done; [|exact Hr1]. rewrite Heq. unfold w_write. rewrite Ef. reflexivity.
      * cbn [lead_err] in Hfuel. lia.
      * inversion Hns as [|? ? Hs _]. discriminate Hs.
    + destruct (w_faults w) as [|[| |m] r] eqn:Ef.
      * exists (mkWriter (w_log w ++ [WFull p]) [] (w_closed w)).
        split; [|split; [split; [cbn [w_log]; rewrite Hlog; reflexivity|reflexivity]|split; [cbn [w_faults]; exists []; reflexivity|exact Hk1]]].
        apply add_retry_done; [|exact Hr1]. rewrite Heq. unfold w_write. rewrite Ef. reflexivity.
      * exists (mkWriter (w_log w ++ [WFull p]) r (w_closed w)).
        split; [|split; [split; [cbn [w_log]; rewrite Hlog; reflexivity|reflexivity]|split; [cbn [w_faults]; exists [FNone]; reflexivity|exact Hk1]]].
        apply add_retry_done; [|exact Hr1]. rewrite Heq. unfold w_write. rewrite Ef. reflexivity.
      * (* refused: the collector is unchanged, one refusal is consumed, again *)
        destruct (IH (mkWriter (w_log w) r (w_closed w))) as (w' & Hrun & Hsim' & Hdrop & Hk').
        { exact Hlog. } { cbn [w_faults]. inversion Hns; assumption. } { cbn [w_faults lead_err] in *. lia. }
        exists w'. split; [|split; [exact Hsim'|split; [apply drops_cons; exact Hdrop|exact Hk']]].
        cbn [add_retry step]. rewrite Heq. unfold w_write. rewrite Ef. cbn [fst snd is_rflush]. exact Hrun.
      * inversion Hns as [|? ? Hs _]. discriminate Hs.
Qed.

(* ------------------------------------------------------------------ whole runs *)
Lemma no_short_drops : forall fs fs', drops fs fs' -> no_short fs -> no_short fs'.
Proof. intros fs fs' [pre E] H. subst fs. unfold no_short in *. apply Forall_app in H. apply H. Qed.

Section Gen.
(* any retry budget that covers the refusals in a row the schedule still holds *)
Variable fuel_of : list fault -> nat.
Variable P : list fault -> Prop.
Hypothesis P_tl : forall f fs, P (f :: fs) -> P fs.
Hypothesis P_fuel : forall fs, P fs -> (lead_err fs <= fuel_of fs)%nat.
Hypothesis P_ns : forall fs, P fs -> no_short fs.

Lemma P_drops : forall fs fs', drops fs fs' -> P fs -> P fs'.
Proof.
  intros fs fs' [pre E]. subst fs. induction pre as [|f pre IH]; intros H; [exact H|].
  apply IH. apply (P_tl f). exact H.
Qed.

Lemma retry_gen_sim : forall ds c w w0, kc_inv c -> wsim w w0 -> P (w_faults w) ->
  fst (fst (adds_with_retry_gen fuel_of (c, w) ds)) = fst (fst (run deflate (c, w0) (add_ops_of ds))) /\
  w_log (snd (fst (adds_with_retry_gen fuel_of (c, w) ds))) = w_log (snd (fst (run deflate (c, w0) (add_ops_of ds)))) /\
  snd (adds_with_retry_gen fuel_of (c, w) ds) = snd (run deflate (c, w0) (add_ops_of ds)).
Proof.
  induction ds as [|[d now] ds IH]; intros c w w0 Hk Hsim HP.
  - cbn [adds_with_retry_gen add_ops_of map run fst snd]. split; [reflexivity|]. split; [apply Hsim|reflexivity].
  - cbn [adds_with_retry_gen add_ops_of map run step fst snd]. fold (add_ops_of ds).
    destruct (c_add deflate c w0 d now) as [[c0 w0'] r0] eqn:E0.
    destruct (add_retry_sim (fuel_of (w_faults w)) c w w0 d now c0 w0' r0 Hk Hsim (P_ns _ HP) (P_fuel _ HP) E0)
      as (w' & Hrun & Hsim' & Hdrop & Hk').
    rewrite Hrun.
    specialize (IH c0 w' w0' Hk' Hsim' (P_drops _ _ Hdrop HP)).
    destruct (adds_with_retry_gen fuel_of (c0, w') ds) as [st1 bs1].
    destruct (run deflate (c0, w0') (add_ops_of ds)) as [st2 bs2].
    cbn [fst snd] in *. destruct IH as (A & B & C). split; [exact A|]. split; [exact B|]. rewrite C. reflexivity.
Qed.
End Gen.

Lemma lead_le_n_ferror : forall fs, (lead_err fs <= n_ferror fs)%nat.
Proof. induction fs as [|[| |m] fs IH]; cbn [lead_err n_ferror]; lia. Qed.

Lemma no_adj_tl : forall f fs, no_adj_err (f :: fs) = true -> no_adj_err fs = true.
Proof. intros f fs H. cbn [no_adj_err] in H. destruct f; try exact H. destruct fs as [|[| |m] fs]; try exact H. discriminate H. Qed.

Lemma no_adj_lead : forall fs, no_adj_err fs = true -> (lead_err fs <= 1)%nat.
Proof.
  intros [|[| |m] [|[| |m'] fs]] H; cbn [lead_err]; try lia. cbn [no_adj_err] in H. discriminate H.
Qed.

(* the general discipline: retry while RFlush, at most as often as the schedule
   holds refusals; every kind, every batch size, every document *)
Theorem retry_equals_fault_free : forall k n fs ds, no_short fs ->
  let r1 := adds_with_retry (new_coll k n, mkWriter [] fs false) ds in
  let r2 := run deflate (new_coll k n, mkWriter [] [] false) (add_ops_of ds) in
  fst (fst r1) = fst (fst r2) /\ w_log (snd (fst r1)) = w_log (snd (fst r2)) /\ snd r1 = snd r2.
Proof.
  intros k n fs ds Hns. cbv zeta. unfold adds_with_retry.
  apply (retry_gen_sim n_ferror no_short).
  - intros f fs0 H. inversion H; assumption.
  - intros fs0 _. apply lead_le_n_ferror.
  - intros fs0 H. exact H.
  - apply kc_inv_new.
  - split; reflexivity.
  - exact Hns.
Qed.

(* the harness's discipline: the same document once more, under a schedule
   without two refusals in a row *)
Theorem retry_once_equals_fault_free : forall k n fs ds, no_short fs -> no_adj_err fs = true ->
  let r1 := adds_with_retry_once (new_coll k n, mkWriter [] fs false) ds in
  let r2 := run deflate (new_coll k n, mkWriter [] [] false) (add_ops_of ds) in
  fst (fst r1) = fst (fst r2) /\ w_log (snd (fst r1)) = w_log (snd (fst r2)) /\ snd r1 = snd r2.
Proof.
  intros k n fs ds Hns Hadj. cbv zeta. unfold adds_with_retry_once.
  apply (retry_gen_sim (fun _ => 1%nat) (fun fs => no_short fs /\ no_adj_err fs = true)).
  - intros f fs0 [H1 H2]. split; [inversion H1; assumption|apply (no_adj_tl f); exact H2].
  - intros fs0 [_ H]. apply no_adj_lead. exact H.
  - intros fs0 [H _]. exact H.
  - apply kc_inv_new.
  - split; reflexivity.
  - split; assumption.
Qed.

(* ------------------------------------------------------------------ the invariant along any history *)
Lemma in_info_set_meta : forall i m, snd (in_info (in_set_meta i m)) = snd (in_info i).
Proof. intros [b|u] m; reflexivity. Qed.

Lemma flush_with_cases : forall A (info : A -> Z * Z) resolve rst (c : A) w,
  fst (fst (flush_with info resolve rst c w)) = c \/ fst (fst (flush_with info resolve rst c w)) = rst c.
Proof.
  intros A info resolve rst c w. unfold flush_with. destruct (snd (info c) =? 0); [left; reflexivity|].
  destruct (resolve c) as [p|]; [|left; reflexivity]. destruct (w_write w p) as [w' ok].
  destruct ok; [right|left]; reflexivity.
Qed.

Lemma kc_inv_step : forall c w o, kc_inv c -> kc_inv (fst (fst (step deflate (c, w) o))).
Proof.
  intros c w o Hk. destruct o as [d now| | | | |m|]; cbn [step].
  - destruct (c_add_shape c d now Hk) as [(c1 & r1 & Heq & _ & Hk1)|(p & c1 & r1 & _ & Hk1 & Heq)]; rewrite Heq.
    + exact Hk1.
    + destruct (snd (w_write w p)); assumption.
  - destruct c as [b|b|x|s|x|u]; cbn [c_add_bad fst]; try exact Hk.
    destruct (sc_max s <=? sc_count s); [|exact Hk].
    pose proof (flush_with_cases scoll (fun s => in_info (sc_inner s)) (fun s => in_resolve deflate (sc_inner s)) sc_reset s w) as H.
    fold (sc_flush deflate s w) in H. destruct (sc_flush deflate s w) as [[s1 w1] ok]. cbn [fst kc_inv] in *.
    destruct H as [-> | ->]; [exact Hk|apply sc_reset_inv].
  - exact Hk.
  - destruct c as [b|b|x|s|x|u]; cbn [c_reset fst kc_inv]; try exact I; apply sc_reset_inv.
  - destruct c as [b|b|x|s|x|u]; cbn [c_flush].
    + destruct (flush_with c_info (c_resolve deflate) c_reset (CBase b) w) as [[c1 w1] ok] eqn:E.
      pose proof (flush_with_cases coll c_info (c_resolve deflate) c_reset (CBase b) w) as H. rewrite E in H.
      cbn [fst] in *. destruct H as [-> | ->]; exact I.
    + destruct (flush_with c_info (c_resolve deflate) c_reset (CBatch b) w) as [[c1 w1] ok] eqn:E.
      pose proof (flush_with_cases coll c_info (c_resolve deflate) c_reset (CBatch b) w) as H. rewrite E in H.
      cbn [fst] in *. destruct H as [-> | ->]; exact I.
    + destruct (flush_with c_info (c_resolve deflate) c_reset (CDyn x) w) as [[c1 w1] ok] eqn:E.
      pose proof (flush_with_cases coll c_info (c_resolve deflate) c_reset (CDyn x) w) as H. rewrite E in H.
      cbn [fst] in *. destruct H as [-> | ->]; exact I.
    + pose proof (flush_with_cases scoll (fun s => in_info (sc_inner s)) (fun s => in_resolve deflate (sc_inner s)) sc_reset s w) as H.
      fold (sc_flush deflate s w) in H. destruct (sc_flush deflate s w) as [[s1 w1] ok]. cbn [fst kc_inv] in *.
      destruct H as [-> | ->]; [exact Hk|apply sc_reset_inv].
    + pose proof (flush_with_cases sdcoll (fun c => in_info (sc_inner (sd_s c))) (fun c => in_resolve deflate (sc_inner (sd_s c))) sd_reset x w) as H.
      fold (sd_flush deflate x w) in H. destruct (sd_flush deflate x w) as [[s1 w1] ok]. cbn [fst kc_inv] in *.
      destruct H as [-> | ->]; [exact Hk|cbn [sd_reset sd_s]; apply sc_reset_inv].
    + destruct (flush_with c_info (c_resolve deflate) c_reset (CUnc u) w) as [[c1 w1] ok] eqn:E.
      pose proof (flush_with_cases coll c_info (c_resolve deflate) c_reset (CUnc u) w) as H. rewrite E in H.
      cbn [fst] in *. destruct H as [-> | ->]; exact I.
  - destruct c as [b|b|x|s|x|u]; cbn [c_set_meta fst kc_inv]; try exact I.
    + destruct Hk as [H0 Hz]. split; [exact H0|]. cbn [sc_count sc_inner]. rewrite in_info_set_meta. exact Hz.
    + cbn [kc_inv] in Hk. destruct Hk as [H0 Hz]. cbn [sd_s]. split; [exact H0|]. cbn [sc_count sc_inner].
      rewrite in_info_set_meta. exact Hz.
  - destruct (c_info c) as [mc sc]. exact Hk.
Qed.

Lemma kc_inv_run : forall ops c w, kc_inv c -> kc_inv (fst (fst (run deflate (c, w) ops))).
Proof.
  induction ops as [|o ops IH]; intros c w Hk; [exact Hk|]. cbn [run].
  pose proof (kc_inv_step c w o Hk) as H1. destruct (step deflate (c, w) o) as [[c1 w1] b].
  specialize (IH c1 w1 H1). destruct (run deflate (c1, w1) ops) as [st bs]. exact IH.
Qed.

(* C09_refused_write_is_noop: after ANY history on any kind of collector with any
   batch size and any fault schedule, an Add that meets a refusing writer either
   does not touch the writer at all, or consumes exactly that refusal, leaves the
   log and the collector literally unchanged and answers RFlush *)
Theorem refused_write_noop : forall k n fs ops d now r,
  let st := c09_reach deflate k n fs ops in
  w_faults (snd st) = FError :: r ->
  let res := step deflate st (OAdd d now) in
  snd (fst res) = snd st \/
  (snd (fst res) = mkWriter (w_log (snd st)) r (w_closed (snd st)) /\ fst (fst res) = fst st /\ snd res = BAdd RFlush).
Proof.
  intros k n fs ops d now r st Hf res. subst res. unfold c09_reach in st.
  pose proof (kc_inv_run ops (new_coll k n) (mkWriter [] fs false) (kc_inv_new k n)) as Hk. fold st in Hk.
  destruct st as [c w]. cbn [fst snd] in *. cbn [step].
  destruct (c_add deflate c w d now) as [[c' w'] a] eqn:E. cbn [fst snd].
  destruct (refused_write_is_noop c w d now r Hk Hf c' w' a E) as [H|(H1 & H2 & H3)]; [left; exact H|right].
  subst. repeat split.
Qed.

End Retry.

(* ------------------------------------------------------------------ non-vacuity *)
(* three one-metric documents, batch size 1, schedule refuse / accept / refuse /
   accept: the second and the third Add each meet a refusal and are issued again;
   both refusals are consumed, two records reach the writer; without the retry the
   second document is lost *)
Definition rt_doc (x : Z) : doc := [([120]%N, VInt64 x)].
Definition rt_docs : list (doc * Z) := [(rt_doc 1, 0); (rt_doc 2, 0); (rt_doc 3, 0)].
Definition rt_faults : list fault := [FError; FNone; FError; FNone].

Theorem retry_example :
  no_short rt_faults /\ no_adj_err rt_faults = true /\
  let r1 := adds_with_retry sw_deflate (new_coll KStream 1, mkWriter [] rt_faults false) rt_docs in
  let r1' := adds_with_retry_once sw_deflate (new_coll KStream 1, mkWriter [] rt_faults false) rt_docs in
  let r2 := run sw_deflate (new_coll KStream 1, mkWriter [] [] false) (add_ops_of rt_docs) in
  snd r1 = [BAdd ROk; BAdd ROk; BAdd ROk] /\ r1' = r1 /\
  w_faults (snd (fst r1)) = [] /\ length (w_log (snd (fst r1))) = 2%nat /\
  fst (fst r1) = fst (fst r2) /\ w_log (snd (fst r1)) = w_log (snd (fst r2)) /\
  snd (run sw_deflate (new_coll KStream 1, mkWriter [] rt_faults false) (add_ops_of rt_docs)) =
    [BAdd ROk; BAdd RFlush; BAdd ROk].
Proof.
  split; [repeat constructor|]. split; [reflexivity|]. cbv zeta.
  repeat split; vm_compute; reflexivity.
Qed.
