(* C07, the wrappers of Model/Wrappers.v: the sampling collector as the wrapped
   collector run on a sub-history that depends on the clock only; interval <= 0 and
   "never elapses" as special cases; what the wrapped collector holds afterwards;
   the writer collector as the streaming dynamic collector. *)
From Coq Require Import ZArith NArith List Bool Lia Arith.
From FV.Model Require Import Bytes Bson Metrics Codec Collector Wf RoundTrip CollectorOk Wrappers.
From FV.Proofs Require Import CollectorProofs.
Import ListNotations.
Open Scope Z_scope.

(* ------------------------------------------------------------------ select, subseq *)
Lemma select_all : forall (A : Type) (l : list A), select (repeat true (length l)) l = l.
Proof. induction l as [|x l IH]; [reflexivity|]. cbn [length repeat select]. rewrite IH. reflexivity. Qed.

Lemma select_in : forall (A : Type) (m : list bool) (l : list A) x, In x (select m l) -> In x l.
Proof.
  intros A. induction m as [|b m IH]; intros [|y l] x H; cbn [select] in H; try contradiction.
  destruct b.
  - destruct H as [<-|H]; [left; reflexivity|right; apply (IH l x H)].
  - right. apply (IH l x H).
Qed.

Lemma subseq_refl : forall (A : Type) (l : list A), subseq l l.
Proof. induction l as [|x l IH]; [constructor|apply sub_take; exact IH]. Qed.

Lemma subseq_nil_l : forall (A : Type) (l : list A), subseq [] l.
Proof. induction l as [|x l IH]; [constructor|apply sub_skip; exact IH]. Qed.

Lemma subseq_app : forall (A : Type) (a a' b b' : list A), subseq a a' -> subseq b b' -> subseq (a ++ b) (a' ++ b').
Proof.
  intros A a a' b b' Ha Hb. induction Ha as [|x l1 l2 Ha IH|x l1 l2 Ha IH]; cbn [app].
  - exact Hb.
  - apply sub_skip. exact IH.
  - apply sub_take. exact IH.
Qed.

Lemma subseq_trans : forall (A : Type) (l2 l3 : list A), subseq l2 l3 -> forall l1, subseq l1 l2 -> subseq l1 l3.
Proof.
  intros A l2 l3 H23. induction H23 as [|x l2 l3 H23 IH|x l2 l3 H23 IH]; intros l1 H12.
  - exact H12.
  - apply sub_skip. apply IH. exact H12.
  - inversion H12 as [|y a b Hab|y a b Hab]; subst.
    + apply sub_skip. apply IH. exact Hab.
    + apply sub_take. apply IH. exact Hab.
Qed.

Lemma subseq_skip_mid : forall (A : Type) (l a b : list A) x, subseq l (a ++ b) -> subseq l (a ++ x :: b).
Proof.
  intros A l a b x H. apply (subseq_trans A (a ++ b)); [|exact H].
  apply subseq_app; [apply subseq_refl|apply sub_skip; apply subseq_refl].
Qed.

Lemma subseq_map : forall (A B : Type) (f : A -> B) (l1 l2 : list A), subseq l1 l2 -> subseq (map f l1) (map f l2).
Proof.
  intros A B f l1 l2 H. induction H as [|x l1 l2 H IH|x l1 l2 H IH]; cbn [map].
  - constructor.
  - apply sub_skip. exact IH.
  - apply sub_take. exact IH.
Qed.

Lemma select_subseq : forall (A : Type) (m : list bool) (l : list A), subseq (select m l) l.
Proof.
  intros A. induction m as [|b m IH]; intros [|x l]; cbn [select]; try apply subseq_nil_l.
  destruct b; [apply sub_take|apply sub_skip]; apply IH.
Qed.

Lemma added_docs_cons : forall o ops, added_docs (o :: ops) = added_docs [o] ++ added_docs ops.
Proof. intros o ops. destruct o; reflexivity. Qed.

Lemma added_docs_subseq : forall l1 l2, subseq l1 l2 -> subseq (added_docs l1) (added_docs l2).
Proof.
  intros l1 l2 H. induction H as [|x l1 l2 H IH|x l1 l2 H IH].
  - constructor.
  - rewrite (added_docs_cons x l2). change (added_docs l1) with ([] ++ added_docs l1).
    apply subseq_app; [apply subseq_nil_l|exact IH].
  - rewrite (added_docs_cons x l1), (added_docs_cons x l2). apply subseq_app; [apply subseq_refl|exact IH].
Qed.

(* ------------------------------------------------------------------ the sampling collector *)
Section Sampling.
Variable deflate : bytes -> bytes.

Lemma adds_cons_add : forall o ops, is_add o = true -> adds (o :: ops) = S (adds ops).
Proof. intros o ops H. unfold adds. cbn [filter]. rewrite H. reflexivity. Qed.

Lemma adds_cons_other : forall o ops, is_add o = false -> adds (o :: ops) = adds ops.
Proof. intros o ops H. unfold adds. cbn [filter]. rewrite H. reflexivity. Qed.

(* the wrapper is the wrapped collector run on the operations selected by the
   mask; the Adds left out are answered nil *)
Lemma sampling_run_mask : forall interval ops clock s, (adds ops <= length clock)%nat ->
  length (sampling_mask interval clock (ss_last s) ops) = length ops /\
  length (snd (sampling_run deflate interval clock s ops)) = length ops /\
  ss_st (fst (sampling_run deflate interval clock s ops)) =
    fst (run deflate (ss_st s) (select (sampling_mask interval clock (ss_last s) ops) ops)) /\
  select (sampling_mask interval clock (ss_last s) ops) (snd (sampling_run deflate interval clock s ops)) =
    snd (run deflate (ss_st s) (select (sampling_mask interval clock (ss_last s) ops) ops)) /\
  Forall (fun b => b = BAdd ROk)
    (select (map negb (sampling_mask interval clock (ss_last s) ops)) (snd (sampling_run deflate interval clock s ops))) /\
  Forall2 (fun (m : bool) o => m = false -> is_add o = true) (sampling_mask interval clock (ss_last s) ops) ops.
Proof.
  intros interval. induction ops as [|o ops IH]; intros clock s Hlen.
  - cbn [sampling_mask sampling_run select map run fst snd length]. repeat split; constructor.
  - destruct (is_add o) eqn:Eo.
    + rewrite (adds_cons_add o ops Eo) in Hlen.
      destruct clock as [|t cl]; [cbn [length] in Hlen; lia|].
      assert (Hlen' : (adds ops <= length cl)%nat) by (cbn [length] in Hlen; lia).
      cbn [sampling_run sampling_mask]. unfold sampling_step. rewrite Eo.
      destruct (sampling_due interval t (ss_last s)) eqn:Ed.
      * destruct (step deflate (ss_st s) o) as [st' b] eqn:Es.
        specialize (IH cl (mkSstate st' (Some t)) Hlen'). cbn [ss_last ss_st] in IH.
        destruct (sampling_run deflate interval cl (mkSstate st' (Some t)) ops) as [s2 bs] eqn:Er.
        cbn [select map negb run fst snd length]. rewrite Es.
        destruct (run deflate st' (select (sampling_mask interval cl (Some t) ops) ops)) as [st2 bs2] eqn:Er2.
        cbn [fst snd] in *. destruct IH as (H1 & H2 & H3 & H4 & H5 & H6).
        split; [rewrite H1; reflexivity|]. split; [rewrite H2; reflexivity|]. split; [exact H3|].
        split; [rewrite H4; reflexivity|]. split; [exact H5|]. constructor; [discriminate|exact H6].
      * specialize (IH cl s Hlen').
        destruct (sampling_run deflate interval cl s ops) as [s2 bs] eqn:Er.
        cbn [select map negb fst snd length] in *. destruct IH as (H1 & H2 & H3 & H4 & H5 & H6).
        split; [rewrite H1; reflexivity|]. split; [rewrite H2; reflexivity|]. split; [exact H3|].
        split; [exact H4|]. split; [constructor; [reflexivity|exact H5]|]. constructor; [intros _; exact Eo|exact H6].
    + rewrite (adds_cons_other o ops Eo) in Hlen.
      cbn [sampling_run sampling_mask]. unfold sampling_step. rewrite Eo.
      destruct (step deflate (ss_st s) o) as [st' b] eqn:Es.
      specialize (IH clock (mkSstate st' (ss_last s)) Hlen). cbn [ss_last ss_st] in IH.
      destruct (sampling_run deflate interval clock (mkSstate st' (ss_last s)) ops) as [s2 bs] eqn:Er.
      cbn [select map negb run fst snd length]. rewrite Es.
      destruct (run deflate st' (select (sampling_mask interval clock (ss_last s) ops) ops)) as [st2 bs2] eqn:Er2.
      cbn [fst snd] in *. destruct IH as (H1 & H2 & H3 & H4 & H5 & H6).
      split; [rewrite H1; reflexivity|]. split; [rewrite H2; reflexivity|]. split; [exact H3|].
      split; [rewrite H4; reflexivity|]. split; [exact H5|]. constructor; [discriminate|exact H6].
Qed.

(* interval <= 0 under a clock that does not go back: every operation is kept *)
Lemma sampling_mask_zero : forall interval ops clock last, interval <= 0 -> clock_mono last clock ->
  (adds ops <= length clock)%nat -> sampling_mask interval clock last ops = repeat true (length ops).
Proof.
  intros interval. induction ops as [|o ops IH]; intros clock last Hi Hm Hlen; [reflexivity|].
  cbn [sampling_mask length repeat]. destruct (is_add o) eqn:Eo.
  - rewrite (adds_cons_add o ops Eo) in Hlen.
    destruct clock as [|t cl]; [cbn [length] in Hlen; lia|].
    cbn [length] in Hlen. cbn [clock_mono] in Hm. destruct Hm as [Hl Hm].
    assert (Hd : sampling_due interval t last = true).
    { destruct last as [l|]; [|reflexivity]. cbn [sampling_due].
      assert (E : (t - l <? interval) = false) by (apply Z.ltb_ge; lia). rewrite E. reflexivity. }
    rewrite Hd. f_equal. apply IH; [exact Hi|exact Hm|lia].
  - rewrite (adds_cons_other o ops Eo) in Hlen. f_equal. apply IH; assumption.
Qed.

Lemma sampling_zero_is_identity : forall interval clock last st ops,
  interval <= 0 -> clock_mono last clock -> (adds ops <= length clock)%nat ->
  (ss_st (fst (sampling_run deflate interval clock (mkSstate st last) ops)),
   snd (sampling_run deflate interval clock (mkSstate st last) ops)) = run deflate st ops.
Proof.
  intros interval clock last st ops Hi Hm Hlen.
  destruct (sampling_run_mask interval ops clock (mkSstate st last) Hlen) as (_ & H2 & H3 & H4 & _).
  cbn [ss_last ss_st] in *. rewrite (sampling_mask_zero interval ops clock last Hi Hm Hlen) in H3, H4.
  rewrite select_all in H3. rewrite H3. rewrite <- H2, select_all in H4. rewrite H2, select_all in H4. rewrite H4.
  destruct (run deflate st ops); reflexivity.
Qed.

(* the interval never elapses: after the first Add no Add is kept *)
Lemma sampling_mask_seen : forall interval ops clock t0, Forall (fun t => t - t0 < interval) clock ->
  (adds ops <= length clock)%nat -> sampling_mask interval clock (Some t0) ops = first_add_mask true ops.
Proof.
  intros interval. induction ops as [|o ops IH]; intros clock t0 Hc Hlen; [reflexivity|].
  cbn [sampling_mask first_add_mask]. destruct (is_add o) eqn:Eo.
  - rewrite (adds_cons_add o ops Eo) in Hlen.
    destruct clock as [|t cl]; [cbn [length] in Hlen; lia|].
    cbn [length] in Hlen. inversion Hc as [|x y Ht Hc']; subst.
    cbn [sampling_due]. assert (E : (t - t0 <? interval) = true) by (apply Z.ltb_lt; exact Ht).
    rewrite E. cbn [negb]. f_equal. apply IH; [exact Hc'|lia].
  - rewrite (adds_cons_other o ops Eo) in Hlen. f_equal. apply IH; assumption.
Qed.

Lemma sampling_mask_long : forall interval ops clock, never_elapses interval clock ->
  (adds ops <= length clock)%nat -> sampling_mask interval clock None ops = first_add_mask false ops.
Proof.
  intros interval. induction ops as [|o ops IH]; intros clock Hc Hlen; [reflexivity|].
  cbn [sampling_mask first_add_mask]. destruct (is_add o) eqn:Eo.
  - rewrite (adds_cons_add o ops Eo) in Hlen.
    destruct clock as [|t cl]; [cbn [length] in Hlen; lia|].
    cbn [length] in Hlen. cbn [sampling_due negb]. f_equal.
    apply sampling_mask_seen; [exact Hc|lia].
  - rewrite (adds_cons_other o ops Eo) in Hlen. f_equal. apply IH; assumption.
Qed.

Lemma sampling_long_first_only : forall interval clock st ops,
  never_elapses interval clock -> (adds ops <= length clock)%nat ->
  ss_st (fst (sampling_run deflate interval clock (mkSstate st None) ops)) = fst (run deflate st (first_add_only ops)) /\
  select (first_add_mask false ops) (snd (sampling_run deflate interval clock (mkSstate st None) ops)) =
    snd (run deflate st (first_add_only ops)) /\
  Forall (fun b => b = BAdd ROk)
    (select (map negb (first_add_mask false ops)) (snd (sampling_run deflate interval clock (mkSstate st None) ops))) /\
  length (snd (sampling_run deflate interval clock (mkSstate st None) ops)) = length ops /\
  length (first_add_mask false ops) = length ops.
Proof.
  intros interval clock st ops Hc Hlen.
  destruct (sampling_run_mask interval ops clock (mkSstate st None) Hlen) as (H1 & H2 & H3 & H4 & H5 & _).
  cbn [ss_last ss_st] in *. rewrite (sampling_mask_long interval ops clock Hc Hlen) in H1, H3, H4, H5.
  unfold first_add_only. repeat split; assumption.
Qed.

(* any interval, any clock *)
Lemma sampling_inner_history : forall interval clock s ops, (adds ops <= length clock)%nat ->
  ss_st (fst (sampling_run deflate interval clock s ops)) =
    fst (run deflate (ss_st s) (select (sampling_mask interval clock (ss_last s) ops) ops)) /\
  select (sampling_mask interval clock (ss_last s) ops) (snd (sampling_run deflate interval clock s ops)) =
    snd (run deflate (ss_st s) (select (sampling_mask interval clock (ss_last s) ops) ops)) /\
  Forall (fun b => b = BAdd ROk)
    (select (map negb (sampling_mask interval clock (ss_last s) ops)) (snd (sampling_run deflate interval clock s ops))) /\
  Forall2 (fun (m : bool) o => m = false -> is_add o = true) (sampling_mask interval clock (ss_last s) ops) ops /\
  length (snd (sampling_run deflate interval clock s ops)) = length ops /\
  length (sampling_mask interval clock (ss_last s) ops) = length ops.
Proof.
  intros interval clock s ops Hlen.
  destruct (sampling_run_mask interval ops clock s Hlen) as (H1 & H2 & H3 & H4 & H5 & H6).
  repeat split; assumption.
Qed.

(* ---- what the wrapped collector holds ---- *)
Variable inflate : bytes -> option bytes.
Hypothesis inflate_deflate : forall p, inflate (deflate p) = Some p.

Lemma run_contents_subseq : forall D k n, compressing k = true -> env_ok D k -> 1 <= n ->
  forall ops st gsw gsp, INV deflate D k n st gsw gsp -> Forall (op_ok D) ops ->
  exists gsw' gsp', INV deflate D k n (fst (run deflate st ops)) gsw' gsp' /\
    subseq (contents gsw' gsp') (contents gsw gsp ++ added_docs ops).
Proof.
  intros D k n Hk Henv Hn. induction ops as [|o ops IH]; intros st gsw gsp Hinv Hops.
  - exists gsw, gsp. split; [exact Hinv|]. cbn [added_docs]. rewrite app_nil_r. apply subseq_refl.
  - inversion Hops as [|x y Hop Hops']; subst.
    destruct (inv_step deflate D k n st gsw gsp o Hk Henv Hn Hinv Hop) as (gsw1 & gsp1 & Hinv1 & Hrel).
    cbn [run]. destruct (step deflate st o) as [st1 b] eqn:Es. cbn [fst snd] in Hinv1, Hrel.
    destruct (IH st1 gsw1 gsp1 Hinv1 Hops') as (gsw2 & gsp2 & Hinv2 & Hsub).
    destruct (run deflate st1 ops) as [st2 bs]. cbn [fst] in *.
    exists gsw2, gsp2. split; [exact Hinv2|].
    destruct o as [d now| | | | |m|]; cbn [added_docs].
    + destruct (obs_add_ok b).
      * rewrite Hrel, <- app_assoc in Hsub. exact Hsub.
      * destruct Hrel as (_ & -> & ->). apply subseq_skip_mid. exact Hsub.
    + destruct Hrel as (_ & Hc & _). rewrite Hc in Hsub. exact Hsub.
    + rewrite Hrel in Hsub. exact Hsub.
    + destruct Hrel as [-> ->]. apply (subseq_trans _ (contents gsw [] ++ added_docs ops)); [|exact Hsub].
      apply subseq_app; [|apply subseq_refl]. unfold contents.
      apply subseq_app; [apply subseq_refl|apply subseq_nil_l].
    + rewrite Hrel in Hsub. exact Hsub.
    + rewrite Hrel in Hsub. exact Hsub.
    + rewrite Hrel in Hsub. exact Hsub.
Qed.

Lemma sampling_never_invents : forall interval clock k n ops,
  compressing k = true -> 1 <= n < 2 ^ 31 -> ops_ok k ops -> (adds ops <= length clock)%nat ->
  exists l,
    c07_contents deflate inflate
      (ss_st (fst (sampling_run deflate interval clock (mkSstate (new_coll k n, mkWriter [] [] false) None) ops))) = Some l /\
    subseq l (map strip_doc (added_docs (select (sampling_mask interval clock None ops) ops))) /\
    subseq (added_docs (select (sampling_mask interval clock None ops) ops)) (added_docs ops).
Proof.
  intros interval clock k n ops Hk Hn Hok Hlen.
  destruct (sampling_run_mask interval ops clock (mkSstate (new_coll k n, mkWriter [] [] false) None) Hlen)
    as (_ & _ & H3 & _).
  cbn [ss_last ss_st] in H3. rewrite H3.
  pose proof (ops_ok_env k ops Hok) as Henv.
  assert (Hsub : Forall (op_ok (ops_added ops)) (select (sampling_mask interval clock None ops) ops)).
  { apply ops_ok_each. intros o Ho. apply (select_in _ _ _ _ Ho). }
  assert (Hinit : INV deflate (ops_added ops) k n (new_coll k n, mkWriter [] [] false) [] []).
  { apply inv_init; [exact Hk|lia]. }
  destruct (run_contents_subseq (ops_added ops) k n Hk Henv ltac:(lia) _ _ [] [] Hinit Hsub) as (gsw & gsp & Hinv & Hs).
  exists (map strip_doc (contents gsw gsp)). split; [|split].
  - apply (inv_contents deflate inflate inflate_deflate (ops_added ops) k n _ gsw gsp Hk Henv Hn Hinv).
  - apply subseq_map. exact Hs.
  - apply added_docs_subseq. apply select_subseq.
Qed.

End Sampling.

(* ------------------------------------------------------------------ the writer collector *)
Section WriterCollector.
Variable deflate : bytes -> bytes.

Lemma wc_run_is_sdyn_from : forall ops c w,
  fst (run deflate (CSDyn c, w) (wc_translate ops)) =
    (CSDyn (fst (fst (wc_run deflate (c, w) ops))), snd (fst (wc_run deflate (c, w) ops))) /\
  snd (wc_run deflate (c, w) ops) = wc_answers ops (snd (run deflate (CSDyn c, w) (wc_translate ops))) /\
  length (snd (wc_run deflate (c, w) ops)) = length ops.
Proof.
  induction ops as [|o ops IH]; intros c w; [repeat split|].
  destruct o as [d now| |]; cbn [wc_translate wc_run wc_step wc_answers run step c_add c_flush].
  - destruct (sd_add deflate c w d now) as [[c1 w1] r] eqn:Ea.
    specialize (IH c1 w1). destruct (wc_run deflate (c1, w1) ops) as [st2 bs].
    destruct (run deflate (CSDyn c1, w1) (wc_translate ops)) as [st3 bs3].
    cbn [fst snd length] in *. destruct IH as (H1 & H2 & H3).
    split; [exact H1|]. split; [rewrite H2; reflexivity|rewrite H3; reflexivity].
  - specialize (IH c w). destruct (wc_run deflate (c, w) ops) as [st2 bs].
    cbn [fst snd length] in *. destruct IH as (H1 & H2 & H3).
    split; [exact H1|]. split; [rewrite H2; reflexivity|rewrite H3; reflexivity].
  - destruct (sd_flush deflate c w) as [[c1 w1] ok] eqn:Ef.
    specialize (IH c1 w1). destruct (wc_run deflate (c1, w1) ops) as [st2 bs].
    destruct (run deflate (CSDyn c1, w1) (wc_translate ops)) as [st3 bs3].
    cbn [fst snd length] in *. destruct IH as (H1 & H2 & H3).
    split; [exact H1|]. split; [rewrite H2; reflexivity|rewrite H3; reflexivity].
Qed.

Lemma writer_collector_is_sdyn_from : forall c w ops,
  CSDyn (fst (fst (wc_run deflate (c, w) ops))) = fst (fst (run deflate (CSDyn c, w) (wc_translate ops))) /\
  snd (fst (wc_run deflate (c, w) ops)) = snd (fst (run deflate (CSDyn c, w) (wc_translate ops))) /\
  snd (wc_run deflate (c, w) ops) = wc_answers ops (snd (run deflate (CSDyn c, w) (wc_translate ops))) /\
  length (snd (wc_run deflate (c, w) ops)) = length ops.
Proof.
  intros c w ops. destruct (wc_run_is_sdyn_from ops c w) as (H1 & H2 & H3). rewrite H1. cbn [fst snd].
  repeat split; assumption.
Qed.

Lemma writer_collector_is_sdyn : forall n fs ops,
  CSDyn (fst (fst (wc_run deflate (wc_new n fs) ops))) =
    fst (fst (run deflate (new_coll KSDyn n, mkWriter [] fs false) (wc_translate ops))) /\
  snd (fst (wc_run deflate (wc_new n fs) ops)) =
    snd (fst (run deflate (new_coll KSDyn n, mkWriter [] fs false) (wc_translate ops))) /\
  snd (wc_run deflate (wc_new n fs) ops) =
    wc_answers ops (snd (run deflate (new_coll KSDyn n, mkWriter [] fs false) (wc_translate ops))) /\
  length (snd (wc_run deflate (wc_new n fs) ops)) = length ops.
Proof. intros n fs ops. apply writer_collector_is_sdyn_from. Qed.

(* an unreadable Add on the streaming dynamic collector has no effect either:
   reading WWriteBad as OAddBad would give the same states *)
Lemma sdyn_add_bad_no_effect : forall c w, step deflate (CSDyn c, w) OAddBad = ((CSDyn c, w), BAdd RCount).
Proof. reflexivity. Qed.

End WriterCollector.

(* ------------------------------------------------------------------ examples *)
Lemma wrappers_example_sampling :
  let deflate := (fun p : bytes => 1%N :: p) in
  let d := (fun x => [([97]%N, VInt64 x); ([98]%N, VInt64 (x + 1))]) in
  let ops := [OInfo; OAdd (d 1) 10; OAdd (d 2) 11; OAddBad; OInfo; OReset] in
  let st0 := (new_coll KStream 2, mkWriter [] [] false) in
  let clock := [100; 200; 300] in
  clock_mono None clock /\ never_elapses 3600 clock /\ (adds ops <= length clock)%nat /\
  first_add_only ops = [OInfo; OAdd (d 1) 10; OInfo; OReset] /\
  snd (sampling_run deflate 3600 clock (mkSstate st0 None) ops) =
    [BInfo 0 0; BAdd ROk; BAdd ROk; BAdd ROk; BInfo 2 1; BReset] /\
  snd (run deflate st0 (first_add_only ops)) = [BInfo 0 0; BAdd ROk; BInfo 2 1; BReset] /\
  snd (sampling_run deflate 0 clock (mkSstate st0 None) ops) = snd (run deflate st0 ops) /\
  snd (run deflate st0 ops) = [BInfo 0 0; BAdd ROk; BAdd ROk; BAdd RCount; BInfo 0 0; BReset] /\
  let ops2 := [OAdd (d 1) 10; OAdd (d 2) 11; OAdd (d 3) 12; OAdd (d 4) 13; OInfo] in
  let st1 := (new_coll KBase 1, mkWriter [] [] false) in
  sampling_mask 50 [0; 10; 60; 70] None ops2 = [true; false; true; false; true] /\
  snd (sampling_run deflate 50 [0; 10; 60; 70] (mkSstate st1 None) ops2) = [BAdd ROk; BAdd ROk; BAdd ROk; BAdd ROk; BInfo 2 2] /\
  snd (run deflate st1 ops2) = [BAdd ROk; BAdd ROk; BAdd RFull; BAdd RFull; BInfo 2 2].
Proof.
  cbv zeta. split; [cbn [clock_mono]; lia|]. split; [unfold never_elapses; repeat (constructor; [lia|]); constructor|].
  split; [vm_compute; lia|]. repeat split; vm_compute; reflexivity.
Qed.

Lemma wrappers_example_writer :
  let deflate := (fun p : bytes => 1%N :: p) in
  let d := (fun x => [([97]%N, VInt64 x); ([98]%N, VInt64 (x + 1))]) in
  let wops := [WWrite (d 1) 10; WWriteBad; WWrite (d 2) 11; WWrite (d 3) 12; WClose; WClose] in
  let fs := [FNone; FError] in
  wc_translate wops = [OAdd (d 1) 10; OAdd (d 2) 11; OAdd (d 3) 12; OFlush; OFlush] /\
  snd (wc_run deflate (wc_new 2 fs) wops) =
    [WBWrite ROk; WBRefused; WBWrite ROk; WBWrite ROk; WBClose false; WBClose true] /\
  snd (run deflate (new_coll KSDyn 2, mkWriter [] fs false) (wc_translate wops)) =
    [BAdd ROk; BAdd ROk; BAdd ROk; BFlush false; BFlush true] /\
  length (w_log (snd (fst (wc_run deflate (wc_new 2 fs) wops)))) = 2%nat /\
  c_info (CSDyn (fst (fst (wc_run deflate (wc_new 2 fs) wops)))) = (0, 0).
Proof. cbv zeta. repeat split; vm_compute; reflexivity. Qed.

Print Assumptions sampling_zero_is_identity.
Print Assumptions sampling_long_first_only.
Print Assumptions sampling_inner_history.
Print Assumptions sampling_never_invents.
Print Assumptions writer_collector_is_sdyn.
Print Assumptions writer_collector_is_sdyn_from.
Print Assumptions sdyn_add_bad_no_effect.
Print Assumptions wrappers_example_sampling.
Print Assumptions wrappers_example_writer.
