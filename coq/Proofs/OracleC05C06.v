(* Oracle soundness for C05 and C06: the executable oracles [c05_ok], [c05_catcher_ok] and [c06_ok]
   (Model/SysReader.v), which the run-time checks apply to what the Go readers did, accept the
   observation the model yields under EVERY schedule.

   C05.  The harness observes Err() (nil / non-nil) up to three times, each time after the consumer
   has seen Next() = false and before it calls Close or cancels; the oracle demands that every
   such observation is "non-nil" exactly when the input has a failure.  One direction is
   C05_error_visible; the other one (no failure in the input, nobody cancelled => no error is
   ever registered) is proved here ([clean_run]).
   C06.  After Close/cancel and quiescence the harness counts the goroutines left, the further
   Next() = true and whether a call ran into the watchdog. *)
From Coq Require Import List Arith Bool Lia.
From FV.Model Require Import SysReader.
From FV.Proofs Require Import SysReaderProofs.
Import ListNotations.

(* ------------------------------------------------------------------ observations *)
(* Err() of the iterator the caller holds is non-nil *)
Definition err_obs (c : cfg) (s : state) : bool := 0 <? errors_registered c s.

(* goroutines of the reader that have not returned *)
Definition leaked (s : state) : nat :=
  (match rd s with RD_done => 0 | _ => 1 end) + (match rc s with RC_done => 0 | _ => 1 end) +
  (match w s with W_done => 0 | _ => 1 end) + (match sp s with S_none => 0 | _ => 1 end).

(* the caller's Next() has not returned false and cannot proceed: the watchdog would expire *)
Definition next_blocked (c : cfg) (s : state) : bool :=
  match cn s with
  | CN_end => false
  | CN_run => match step c s T_CN with Some _ => false | None => true end
  end.

(* ------------------------------------------------------------------ C05: has_failureb *)
Lemma existsb_is_bad : forall l, existsb is_bad l = true <-> In BadChunk l.
Proof.
  intros l. rewrite existsb_exists. split.
  - intros (x & Hin & Hb). destruct x; try discriminate Hb. exact Hin.
  - intros Hin. exists BadChunk. split; [exact Hin | reflexivity].
Qed.

Lemma has_failureb_iff : forall i, has_failureb i = true <-> has_failure i.
Proof.
  intros i. unfold has_failureb, has_failure. rewrite orb_true_iff, existsb_is_bad.
  destruct (i_fin i); split; intros [H|H]; auto; try discriminate H.
Qed.

(* ------------------------------------------------------------------ C05: no spurious error *)
Definition rd_cleanb (p : rdpc) : bool :=
  match p with RD_send BadChunk | RD_add true | RD_close true => false | _ => true end.
Definition rc_cleanb (p : rcpc) : bool :=
  match p with RC_add true | RC_close true => false | _ => true end.
Definition w_cleanb (p : wpc) : bool := match p with W_abort => false | _ => true end.

(* nothing failed so far and nothing that is still to come can fail *)
Definition clean (s : state) : Prop :=
  catC s = [] /\ catW s = [] /\ existsb is_bad (docs s) = false /\ fin s = CleanEOF /\
  rd_cleanb (rd s) = true /\ rc_cleanb (rc s) = true /\ w_cleanb (w s) = true.

Lemma clean_init : forall c i, ~ has_failure i -> clean (init c i).
Proof.
  intros c i NF. unfold clean, init; simpl.
  assert (Hb : has_failureb i = false).
  { destruct (has_failureb i) eqn:E; [|reflexivity]. exfalso. apply NF, has_failureb_iff, E. }
  unfold has_failureb in Hb. apply orb_false_iff in Hb. destruct Hb as [Hd Hf].
  repeat split; auto.
  - destruct (i_fin i); [reflexivity | discriminate Hf].
  - destruct (layered c); reflexivity.
Qed.

Lemma clean_step : forall c s t s', clean s -> step c s t = Some s' -> nocancel s' -> clean s'.
Proof.
  intros c s t s' (K1 & K2 & K3 & K4 & K5 & K6 & K7) H (NP & NI & NC).
  unfold step, rd_fin, rc_fin, w_fin in H.
  destruct t; break_step H; inv_some H; unfold clean, done_C, done_I, some_if in *; simpl in *;
    rewrite ?NP, ?NI, ?NC in *; simpl in *; try discriminate;
    repeat match goal with
           | E : rd _ = _ |- _ => rewrite E in *
           | E : rc _ = _ |- _ => rewrite E in *
           | E : w _ = _ |- _ => rewrite E in *
           | E : docs _ = _ |- _ => rewrite E in *
           | E : fin _ = _ |- _ => rewrite E in *
           | E : catC _ = _ |- _ => rewrite E in *
           | E : catW _ = _ |- _ => rewrite E in *
           end; simpl in *; try discriminate;
    repeat match goal with
           | E : (_ || _) = false |- _ => apply orb_false_iff in E; destruct E
           end;
    repeat match goal with
           | |- context [if ?b then _ else _] => destruct b
           end; simpl in *;
    try solve [ repeat split; auto; try congruence ].
  match goal with H : is_bad ?i = false |- _ => destruct i; try discriminate H end;
    repeat split; auto.
Qed.

Lemma clean_run : forall c sched s s', clean s -> run c s sched = Some s' -> nocancel s' -> clean s'.
Proof.
  induction sched as [|t sched IH]; intros s s' K R N; simpl in R.
  - inv_some R. exact K.
  - destruct (step c s t) as [s1|] eqn:E; [|discriminate].
    apply (IH s1 s'); auto. apply (clean_step c s t s1); auto.
    eapply run_nocancel_back; eauto.
Qed.

(* without a failure in the input and without cancellation no error is ever registered, whatever
   the schedule (any configuration, at any moment - not only after the end) *)
Lemma no_spurious_error : forall c i sched s,
  run c (init c i) sched = Some s -> nocancel s -> ~ has_failure i -> errors_registered c s = 0.
Proof.
  intros c i sched s R N NF.
  destruct (clean_run c sched _ _ (clean_init c i NF) R N) as (K1 & K2 & _).
  unfold errors_registered. rewrite K1, K2. destruct (layered c); reflexivity.
Qed.

(* once Next() has returned false it stays that way *)
Lemma saw_end_step : forall c s t s', step c s t = Some s' -> cn s = CN_end -> cn s' = CN_end.
Proof.
  intros c s t s' H E. unfold step in H. rewrite ?E in H.
  destruct t; try discriminate H; break_step H; inv_some H; simpl; exact E.
Qed.

Lemma saw_end_run : forall c sched s s', run c s sched = Some s' -> consumer_saw_end s -> consumer_saw_end s'.
Proof.
  unfold consumer_saw_end.
  induction sched as [|t sched IH]; intros s s' R E; simpl in R.
  - inv_some R. exact E.
  - destruct (step c s t) as [s1|] eqn:H; [|discriminate].
    apply (IH s1 s' R). eapply saw_end_step; eauto.
Qed.

(* the observation made in any state after the end, nobody having cancelled *)
Lemma err_obs_after_end : forall c i sched s,
  c_abc c = true -> run c (init c i) sched = Some s -> nocancel s -> consumer_saw_end s ->
  err_obs c s = has_failureb i.
Proof.
  intros c i sched s ABC R N E. unfold err_obs.
  destruct (has_failureb i) eqn:F.
  - apply has_failureb_iff in F. apply Nat.ltb_lt.
    pose proof (C05_error_visible_lemma c i sched s ABC R N E F). lia.
  - rewrite (no_spurious_error c i sched s R N); [reflexivity|].
    intros HF. apply has_failureb_iff in HF. congruence.
Qed.

Lemma eqb_same : forall a b, a = b -> Bool.eqb a b = true.
Proof. intros a b ->. apply eqb_reflx. Qed.

(* C05: three observations, at a state s1 after the end (possibly not made), at a later state s2
   and at a still later state s3; no context cancelled up to s3 *)
Lemma c05_oracle_sound : forall c i sched1 sched2 sched3 s1 s2 s3 o1,
  c_abc c = true ->
  run c (init c i) sched1 = Some s1 -> run c s1 sched2 = Some s2 -> run c s2 sched3 = Some s3 ->
  consumer_saw_end s1 -> nocancel s3 ->
  o1 = None \/ o1 = Some (err_obs c s1) ->
  c05_ok (has_failureb i) [o1; Some (err_obs c s2); Some (err_obs c s3)] = true.
Proof.
  intros c i sched1 sched2 sched3 s1 s2 s3 o1 ABC R1 R2 R3 E1 N3 Ho.
  pose proof (run_nocancel_back _ _ _ _ R3 N3) as N2.
  pose proof (run_nocancel_back _ _ _ _ R2 N2) as N1.
  pose proof (saw_end_run _ _ _ _ R2 E1) as E2.
  pose proof (saw_end_run _ _ _ _ R3 E2) as E3.
  assert (R2' : run c (init c i) (sched1 ++ sched2) = Some s2) by (rewrite run_app, R1; exact R2).
  assert (R3' : run c (init c i) ((sched1 ++ sched2) ++ sched3) = Some s3) by (rewrite run_app, R2'; exact R3).
  unfold c05_ok. cbn [forallb].
  rewrite (eqb_same _ _ (err_obs_after_end c i _ s2 ABC R2' N2 E2)).
  rewrite (eqb_same _ _ (err_obs_after_end c i _ s3 ABC R3' N3 E3)).
  destruct Ho as [-> | ->]; [reflexivity|].
  rewrite (eqb_same _ _ (err_obs_after_end c i _ s1 ABC R1 N1 E1)). reflexivity.
Qed.

(* the catcher as the model has it: Add is an atomic cons (Model/SysReader.v addC/addW); whatever
   the interleaving of g goroutines that each add m errors, the executed Adds are a list of g*m
   errors.  Observed: Len(), the number of errors in Resolve()'s message, HasErrors(), Resolve() is
   non-nil, and Len() never went down between two Adds *)
Definition cat_adds (adds : list err) : list err := fold_left (fun cat e => e :: cat) adds [].
Fixpoint lens_from (cat : list err) (adds : list err) : list nat :=
  match adds with [] => [length cat] | e :: r => length cat :: lens_from (e :: cat) r end.
Fixpoint nondecreasing (l : list nat) : bool :=
  match l with
  | a :: ((b :: _) as r) => (a <=? b) && nondecreasing r
  | _ => true
  end.

Lemma fold_cons_length : forall (adds cat : list err),
  length (fold_left (fun cat e => e :: cat) adds cat) = length adds + length cat.
Proof.
  induction adds as [|e r IH]; intros cat; simpl; [reflexivity|]. rewrite IH. simpl. lia.
Qed.

Lemma lens_from_hd : forall adds cat, exists t, lens_from cat adds = length cat :: t.
Proof. intros [|e r] cat; cbn [lens_from]; eexists; reflexivity. Qed.

Lemma lens_nondecreasing : forall adds cat, nondecreasing (lens_from cat adds) = true.
Proof.
  induction adds as [|e r IH]; intros cat; [reflexivity|].
  specialize (IH (e :: cat)). cbn [lens_from].
  destruct (lens_from_hd r (e :: cat)) as [t Ht]. rewrite Ht in *.
  cbn [nondecreasing] in *. rewrite IH, andb_true_r. apply Nat.leb_le. cbn [length]. lia.
Qed.

Lemma c05_catcher_oracle_sound : forall g m adds,
  1 <= g -> 1 <= m -> length adds = g * m ->
  let cat := cat_adds adds in
  c05_catcher_ok g m (length cat) (length cat) (0 <? length cat) (0 <? length cat)
                 (nondecreasing (lens_from [] adds)) = true.
Proof.
  intros g m adds Hg Hm Hlen cat. unfold c05_catcher_ok.
  assert (Hc : length cat = g * m).
  { unfold cat, cat_adds. rewrite fold_cons_length. simpl. lia. }
  rewrite Hc, Nat.eqb_refl, lens_nondecreasing.
  assert (Hpos : (0 <? g * m) = true) by (apply Nat.ltb_lt; nia).
  rewrite Hpos. reflexivity.
Qed.

(* ------------------------------------------------------------------ C06 *)
Lemma all_done_leaked : forall s, all_done s -> leaked s = 0.
Proof.
  intros s D. unfold all_done, all_doneb in D. unfold leaked.
  destruct (rd s); try discriminate. destruct (rc s); try discriminate.
  destruct (w s); try discriminate. destruct (sp s); try discriminate. reflexivity.
Qed.

(* s: a state after Close/cancel (every context done); s1: any quiescent state reached from it
   (no goroutine can move); s2: any state reached from s1 by the caller's further calls.
   Observed: the goroutines left at s1, the Next() = true between s1 and s2, and whether Next
   is blocked at s2.  The bound is the capacity [cap c] (2 / 100 / 25 for the code's [cfg_of]). *)
Lemma c06_oracle_sound : forall c s sched1 s1 sched2 s2,
  c_abc c = true -> reachable c s -> cancelled c s ->
  run c s sched1 = Some s1 -> (forall g, goroutine g = true -> step c s1 g = None) ->
  run c s1 sched2 = Some s2 ->
  c06_ok (leaked s1) (got s2 - got s1) (cap c) (next_blocked c s2) = true.
Proof.
  intros c s sched1 s1 sched2 s2 ABC RE CA R1 Q R2.
  pose proof (quiescent_is_done c s sched1 s1 ABC RE CA R1 Q) as D1.
  assert (I1 : Inv6 c s1) by (eapply Inv6_run; eauto; apply Inv6_reachable; auto).
  assert (I2 : Inv6 c s2) by (eapply Inv6_run; eauto).
  destruct (next_after_done c sched2 s1 s2 D1 R2) as [D2 Q2].
  pose proof (buffered_le_cap c s1 I1) as B.
  unfold c06_ok. rewrite (all_done_leaked s1 D1). cbn [Nat.eqb andb].
  assert (Hf : (got s2 - got s1 <=? cap c) = true) by (apply Nat.leb_le; lia).
  rewrite Hf. cbn [andb].
  unfold next_blocked. destruct (cn s2) eqn:N; [|reflexivity].
  pose proof (next_never_blocks c s2 I2 D2 N) as NB.
  destruct (step c s2 T_CN); [reflexivity | congruence].
Qed.

(* the code's capacities *)
Lemma cap_cfg_of : forall k, cap (cfg_of k) = match k with KChunk => 2 | KDoc => 100 | KMatrix => 25 end.
Proof. intros k. destruct k; reflexivity. Qed.

(* the per-chunk sample iterator (entries "sample"/"ssample" of the check; bound = the sample
   channel's capacity): the streamer's channel never holds more than c_scap samples, and once the
   streamer is gone the channel is closed, so a receive does not block *)
Lemma oq_le_scap_step : forall c s t s', step c s t = Some s' -> oq s <= c_scap c -> oq s' <= c_scap c.
Proof.
  intros c s t s' H I. unfold step in H.
  destruct t; break_step H; inv_some H; simpl in *;
    repeat match goal with
           | E : oq _ = _ |- _ => rewrite E in *
           | E : (_ <? _) = true |- _ => apply Nat.ltb_lt in E
           end; simpl in *; try lia.
Qed.

Lemma oq_le_scap : forall c s, reachable c s -> oq s <= c_scap c.
Proof.
  intros c s (i & sched & R).
  assert (G : forall sched s0 s', run c s0 sched = Some s' -> oq s0 <= c_scap c -> oq s' <= c_scap c).
  { induction sched0 as [|t r IH]; intros s0 s' R0 I0; simpl in R0.
    - inv_some R0. exact I0.
    - destruct (step c s0 t) as [s1|] eqn:E; [|discriminate].
      apply (IH s1 s' R0). eapply oq_le_scap_step; eauto. }
  apply (G sched _ _ R). simpl. lia.
Qed.

Lemma c06_sample_oracle_sound : forall c s further,
  c_abc c = true -> reachable c s -> sp s = S_none -> further <= oq s ->
  c06_ok (match sp s with S_none => 0 | _ => 1 end) further (c_scap c)
         (negb (out_cl s) && (oq s =? 0)) = true.
Proof.
  intros c s further ABC RE SP F.
  pose proof (oq_le_scap c s RE) as B.
  destruct (Inv6_reachable c s ABC RE) as (_ & _ & _ & I4 & _).
  unfold c06_ok. rewrite SP. cbn [Nat.eqb andb].
  assert (Hf : (further <=? c_scap c) = true) by (apply Nat.leb_le; lia).
  rewrite Hf. cbn [andb].
  destruct (out_cl s) eqn:O; [reflexivity|]. exfalso. apply (I4 eq_refl). exact SP.
Qed.
