(* Oracle soundness for C18, round trip: the executable oracle c18_ok_roundtrip of
   Model/CsvOk.v accepts the model's own observation model_obs_convert (ConvertFromCSV
   on the text the model's WriteCSV wrote, then the model reader with its evaluation
   cap, then chunk_view of every chunk read back). *)
From Coq Require Import ZArith NArith List Bool Lia Arith.
From FV.Model Require Import Bytes Bson Metrics Codec Collector Wf RoundTrip CollectorOk Views Frame Instance Csv CsvOk.
From FV.Model Require ViewsOk.
From FV.Proofs Require Import MetricsProofs CollectorBase CodecProofs CollectorSizes CsvProofs OracleSoundC18.
From FV.Proofs Require ViewsProofs OracleSoundC01.
Import ListNotations.

(* ------------------------------------------------------------------ list facts *)
Lemma map_nth_seq : forall (A : Type) (l : list A) d, map (fun j => nth j l d) (seq 0 (length l)) = l.
Proof.
  intros A l d. induction l as [|a r IH]; [reflexivity|].
  cbn [length seq map nth]. f_equal. rewrite <- seq_shift, map_map. exact IH.
Qed.

Lemma map_snd_combine : forall (A B : Type) (a : list A) (b : list B), length b = length a -> map snd (combine a b) = b.
Proof.
  intros A B a. induction a as [|x a IH]; intros [|y b] H; try discriminate; [reflexivity|].
  cbn [combine map snd]. f_equal. apply IH. cbn [length] in H. lia.
Qed.

Lemma map_fst_combine : forall (A B : Type) (a : list A) (b : list B), length a = length b -> map fst (combine a b) = a.
Proof.
  intros A B a. induction a as [|x a IH]; intros [|y b] H; try discriminate; [reflexivity|].
  cbn [combine map fst]. f_equal. apply IH. cbn [length] in H. lia.
Qed.

Lemma nth_map_in : forall (A : Type) (F : A -> Z) (g : list A) i d, (i < length g)%nat -> nth i (map F g) 0%Z = F (nth i g d).
Proof.
  intros A F g i d Hi. rewrite (nth_indep _ 0%Z (F d)) by (rewrite map_length; exact Hi). apply map_nth.
Qed.

Lemma list_eqb_refl : forall (A : Type) (eq : A -> A -> bool), (forall x, eq x x = true) -> forall l, list_eqb eq l l = true.
Proof. intros A eq H. induction l as [|x l IH]; [reflexivity|]. cbn [list_eqb]. rewrite H, IH. reflexivity. Qed.

Lemma zrows_eqb_refl : forall r, zrows_eqb r r = true.
Proof. apply list_eqb_refl. apply list_eqb_refl. apply Z.eqb_refl. Qed.

(* ------------------------------------------------------------------ clock readings do not matter to the conversion's shape *)
Lemma cv_feed_nows : forall deflate ds c w,
  cv_feed deflate c w ds [] = cv_feed deflate c w ds (repeat 0%Z (length ds)).
Proof.
  intros deflate. induction ds as [|d ds IH]; intros c w; [reflexivity|].
  cbn [cv_feed length repeat hd tl].
  destruct (sd_add deflate c w d 0%Z) as [[c' w'] res]. destruct res; try reflexivity. apply IH.
Qed.

Lemma convert_nows : forall deflate t bucket docs st, cv_docs t = (docs, st) ->
  convert_from_csv deflate t bucket [] [] = convert_from_csv deflate t bucket (repeat 0%Z (length docs)) [].
Proof.
  intros deflate t bucket docs st H. unfold convert_from_csv. rewrite H.
  destruct st; try reflexivity; rewrite cv_feed_nows; reflexivity.
Qed.

(* ------------------------------------------------------------------ the evaluation cap *)
Lemma split_every_len : forall n k l, length (split_every n k l) = k.
Proof. intros n k. induction k as [|k IH]; intro l; [reflexivity|]. cbn [split_every length]. rewrite IH. reflexivity. Qed.

Lemma read_chunk_cap : forall inflate cap meta d c,
  read_chunk_gen inflate None meta d = inl c ->
  (N.of_nat (length (ck_metrics c)) * Z.to_N (ck_npoints c - 1) <= cap)%N ->
  read_chunk_gen inflate (Some cap) meta d = inl c.
Proof.
  intros inflate cap meta d c H Hcap. unfold read_chunk_gen in *.
  destruct (lookup k_data d) as [v|]; [|discriminate H]. destruct v; try discriminate H.
  destruct (Nat.ltb (length b) 4); [discriminate H|].
  destruct (inflate (skipn 4 b)) as [p|]; [|discriminate H].
  destruct (dec_doc p) as [[ref r1]|]; [|discriminate H].
  destruct (take_exact 8 r1) as [[w r2]|]; [|discriminate H].
  cbv zeta in *.
  set (nm := le_dec (firstn 4 w)) in *. set (nd := le_dec (skipn 4 w)) in *.
  destruct (negb (nm =? N.of_nat (length (metrics_of_doc [] ref)))%N) eqn:En; [discriminate H|].
  apply negb_false_iff in En. apply N.eqb_eq in En.
  destruct (read_deltas (N.to_nat (nm * nd)) 0%N r2) as [[ds r3]|]; [|discriminate H].
  injection H as <-. cbn [ck_metrics ck_npoints] in Hcap.
  rewrite map_length, combine_length, split_every_len, Nat.min_id in Hcap.
  replace (Z.of_N nd + 1 - 1)%Z with (Z.of_N nd) in Hcap by lia.
  rewrite N2Z.id, <- En in Hcap.
  apply N.ltb_ge in Hcap. rewrite Hcap. reflexivity.
Qed.

Lemma read_chunks_cap : forall inflate cap ds meta cs,
  read_chunks_gen inflate None meta ds = (cs, None) ->
  Forall (fun c => (N.of_nat (length (ck_metrics c)) * Z.to_N (ck_npoints c - 1) <= cap)%N) cs ->
  read_chunks_gen inflate (Some cap) meta ds = (cs, None).
Proof.
  intros inflate cap. induction ds as [|d r IH]; intros meta cs H HF; cbn [read_chunks_gen] in *; [exact H|].
  destruct (is_num 0 (lookup k_type d)); [exact (IH _ _ H HF)|].
  destruct (negb (is_num 1 (lookup k_type d))); [exact (IH _ _ H HF)|].
  destruct (read_chunk_gen inflate None meta d) as [c|e] eqn:Ec; [|discriminate H].
  destruct (read_chunks_gen inflate None meta r) as [cs' e'] eqn:Er. injection H as <- ->.
  inversion HF as [|? ? Hc Hcs]; subst.
  rewrite (read_chunk_cap _ _ _ _ _ Ec Hc), (IH _ _ Er Hcs). reflexivity.
Qed.

(* every expected chunk size is at most the bucket size *)
Lemma split_cap_le : forall fuel cap n, (1 <= cap)%Z -> (n <= Z.of_nat fuel)%Z ->
  Forall (fun s => (s <= cap)%Z) (split_cap_fuel fuel cap n).
Proof.
  induction fuel as [|f IH]; intros cap n Hc Hn; cbn [split_cap_fuel].
  - constructor; [cbn in Hn; lia|constructor].
  - destruct (n <=? cap)%Z eqn:E.
    + apply Z.leb_le in E. constructor; [exact E|constructor].
    + constructor; [lia|]. apply IH; [exact Hc|]. lia.
Qed.

Lemma expected_sizes_le : forall cap docs, (1 <= cap)%Z -> Forall (fun s => (s <= cap)%Z) (expected_sizes cap docs).
Proof.
  intros cap docs Hc. unfold expected_sizes. apply Forall_forall. intros s Hs.
  apply in_flat_map in Hs. destruct Hs as [n [_ Hs]].
  pose proof (split_cap_le (Z.to_nat n) cap n Hc ltac:(lia)) as HF. rewrite Forall_forall in HF. exact (HF s Hs).
Qed.

(* ------------------------------------------------------------------ documents made of int64 cells *)
Lemma idoc_lpaths : forall ks zs p, length zs = length ks ->
  ViewsOk.lpaths_doc p (idoc ks zs) = map (fun k => p ++ [k]) ks.
Proof.
  induction ks as [|k ks IH]; intros zs p Hl; [reflexivity|].
  destruct zs as [|z zs]; [discriminate|]. unfold idoc in *.
  cbn [map combine ViewsOk.lpaths_doc ViewsOk.lpaths app]. f_equal. apply IH. cbn [length] in Hl. lia.
Qed.

Lemma idoc_spec_keys : forall ks zs, length zs = length ks -> ViewsOk.spec_keys (idoc ks zs) = ks.
Proof.
  intros ks zs Hl. unfold ViewsOk.spec_keys. rewrite (idoc_lpaths ks zs [] Hl), map_map. cbn [app join_dot].
  apply map_id.
Qed.

Lemma idoc_vrow : forall ks zs, length zs = length ks -> map snd (flatten_doc (idoc ks zs)) = zs.
Proof. intros ks zs Hl. rewrite idoc_flatten, map_map. cbn [snd]. apply map_snd_combine. exact Hl. Qed.

Lemma idoc_flat_len : forall ks zs, length zs = length ks -> length (flatten_doc (idoc ks zs)) = length ks.
Proof. intros ks zs Hl. rewrite idoc_flatten, map_length, combine_length, Hl. apply Nat.min_id. Qed.

Definition is_idoc (ks : list bytes) (d : doc) : Prop := exists zs, d = idoc ks zs /\ length zs = length ks.

(* ------------------------------------------------------------------ a chunk that is the table of a group of such documents *)
Section Pair.
Variable ks : list bytes.
Variable c : chunk.
Variable g : list doc.
Hypothesis Hne : g <> [].
Hypothesis Hnp : ck_npoints c = Z.of_nat (length g).
Hypothesis Hkeys : map r_key (chunk_table c) = ViewsOk.spec_keys (hd [] g).
Hypothesis Htab : chunk_table c = doc_table (hd [] g) g.
Hypothesis Hg : Forall (is_idoc ks) g.

Lemma pair_hd : is_idoc ks (hd [] g).
Proof. destruct g as [|d0 g']; [congruence|]. inversion Hg; assumption. Qed.

Lemma pair_field_names : field_names c = ks.
Proof.
  destruct pair_hd as [zs [Hd Hl]].
  transitivity (map r_key (chunk_table c)).
  - unfold field_names, chunk_table. rewrite map_map. reflexivity.
  - rewrite Hkeys, Hd. apply idoc_spec_keys. exact Hl.
Qed.

Lemma pair_nmetrics : length (ck_metrics c) = length ks.
Proof. rewrite <- pair_field_names. unfold field_names. rewrite map_length. reflexivity. Qed.

Lemma pair_rows : chunk_int_rows c = map (fun d => map snd (flatten_doc d)) g.
Proof.
  set (vr := fun d : doc => map snd (flatten_doc d)).
  assert (Hvr : forall d, In d g -> length (vr d) = length ks).
  { intros d Hd. rewrite Forall_forall in Hg. destruct (Hg d Hd) as [zs [-> Hl]]. unfold vr. rewrite idoc_vrow; assumption. }
  assert (HL : length (metrics_of_doc [] (hd [] g)) = length ks).
  { destruct pair_hd as [zs [-> Hl]]. rewrite metrics_of_doc_length. apply idoc_flat_len. exact Hl. }
  unfold chunk_int_rows. rewrite Hnp, Nat2Z.id.
  rewrite <- (map_nth_seq _ g []) at 2. rewrite map_map. apply map_ext_in. intros i Hi. apply in_seq in Hi.
  assert (Hsr : sample_row c i = map (fun r => nth i (r_col r) 0%Z) (chunk_table c)).
  { unfold sample_row, chunk_table. rewrite map_map. reflexivity. }
  rewrite Hsr, Htab. unfold doc_table. rewrite map_map. cbn [r_col].
  assert (Hin : In (nth i g []) g) by (apply nth_In; lia).
  transitivity (map (fun j => nth j (vr (nth i g [])) 0%Z) (seq 0 (length (metrics_of_doc [] (hd [] g))))).
  - rewrite <- (map_fst_combine _ _ (seq 0 (length (metrics_of_doc [] (hd [] g)))) (metrics_of_doc [] (hd [] g))) at 2
      by (rewrite seq_length; reflexivity).
    rewrite map_map. apply map_ext. intros [j m]. cbn [fst snd].
    apply (nth_map_in doc (fun d => nth j (map snd (flatten_doc d)) 0%Z) g i []). lia.
  - rewrite HL, <- (Hvr _ Hin). apply map_nth_seq.
Qed.

End Pair.

(* ------------------------------------------------------------------ the round trip *)
Lemma table_docs_idoc : forall ks rows, Forall (fun r => length r = length ks) rows ->
  Forall (is_idoc ks) (table_docs ks rows).
Proof.
  intros ks rows H. unfold table_docs. apply Forall_forall. intros d Hd. apply in_map_iff in Hd.
  destruct Hd as [zs [<- Hin]]. rewrite Forall_forall in H. exists zs. split; [reflexivity|apply H; exact Hin].
Qed.

Lemma table_docs_vrows : forall ks rows, Forall (fun r => length r = length ks) rows ->
  map (fun d => map snd (flatten_doc d)) (table_docs ks rows) = rows.
Proof.
  intros ks rows H. unfold table_docs. rewrite map_map. rewrite <- (map_id rows) at 2.
  apply map_ext_in. intros zs Hin. rewrite Forall_forall in H. apply idoc_vrow. apply H. exact Hin.
Qed.

Lemma c18_oracle_roundtrip_sound : forall c cs n bucket,
  Forall (fun c' => nmetrics c' = n) (c :: cs) ->
  Forall (fun c' => has_date c' = false) (c :: cs) ->
  record_ok (field_names c) = true ->
  Forall (Forall (fun z => in_i64 z = true)) (int_rows (c :: cs)) ->
  Forall (fun k => key_ok k = true) (field_names c) ->
  (N.of_nat n < 2 ^ 32)%N ->
  Forall (fun d => small (enc_doc d)) (table_docs (field_names c) (int_rows (c :: cs))) ->
  (1 <= bucket < 2 ^ 31)%Z ->
  (N.of_nat n * Z.to_N bucket <= delta_cap)%N ->
  exists mcs,
    model_obs_convert (fst (model_obs_write (c :: cs))) bucket = (mcs, false, false) /\
    Forall (fun kr => fst kr = field_names c) (map chunk_view mcs) /\
    flat_map snd (map chunk_view mcs) = int_rows (c :: cs) /\
    c18_ok_roundtrip (c :: cs) (map chunk_view mcs) false false = true.
Proof.
  intros c cs n bucket Hc Hd Hk Hv Hkeys Hn32 Hsmall Hb Hcap.
  pose proof (roundtrip_docs c cs n Hc Hd Hk Hv) as Hcv.
  set (ks := field_names c) in *. set (rows := int_rows (c :: cs)) in *.
  assert (Hkl : length ks = n).
  { unfold ks, field_names. rewrite map_length. inversion Hc; subst. reflexivity. }
  assert (Hrl : Forall (fun r => length r = length ks) rows).
  { rewrite Hkl. apply int_rows_lengths. exact Hc. }
  set (docs := table_docs ks rows) in *.
  set (nows := repeat 0%Z (length docs)).
  assert (Hlen : length nows = length docs) by apply repeat_length.
  assert (Hnz : Forall (fun t => in_i64 t = true) nows).
  { apply Forall_forall. intros t Ht. apply repeat_spec in Ht. subst t. reflexivity. }
  assert (Hok : docs_ok KSDyn docs) by (apply (table_docs_ok _ _ OracleSoundC01.inflate_deflate_flag); try assumption; rewrite Hkl; exact Hn32).
  assert (Hidocs : Forall (is_idoc ks) docs) by (apply table_docs_idoc; exact Hrl).
  assert (Hvrows : map (fun d => map snd (flatten_doc d)) docs = rows) by (apply table_docs_vrows; exact Hrl).
  unfold model_obs_convert, model_obs_write.
  rewrite (convert_nows deflate_flag _ bucket docs CvOk Hcv). fold nows.
  clearbody nows. clearbody docs.
  destruct (c08_dynamic deflate_flag inflate_flag OracleSoundC01.inflate_deflate_flag KSDyn bucket docs nows
              (or_intror eq_refl) Hb Hlen Hok) as [Hobs [dd [Hdec Hc08]]].
  rewrite (convert_is_emit deflate_flag _ docs bucket nows Hcv Hlen Hobs).
  set (out := emitted (snd (fst (emit deflate_flag KSDyn bucket docs nows)))) in *.
  (* the chunks and their sizes *)
  unfold decode_ftdc in Hdec.
  destruct (read_chunks_gen inflate_flag None None out) as [mcs e] eqn:Erd.
  destruct e; [discriminate Hdec|].
  destruct (all_some (flat_map structured_docs mcs)); [|discriminate Hdec]. injection Hdec as <-.
  unfold c08_ok in Hc08. cbn [dc_sizes] in Hc08.
  destruct (list_eq_dec Z.eq_dec (map ck_npoints mcs) (expected_sizes bucket docs)) as [Hsz|]; [|rewrite andb_false_r in Hc08; discriminate Hc08].
  assert (Hnp : Forall (fun c' => (ck_npoints c' <= bucket)%Z) mcs).
  { pose proof (expected_sizes_le bucket docs ltac:(lia)) as HF. rewrite <- Hsz in HF.
    rewrite Forall_forall in HF |- *. intros c' Hc'. apply HF. apply in_map. exact Hc'. }
  (* the chunks as tables of groups *)
  assert (Hpairs : Forall (fun c' => field_names c' = ks /\ length (ck_metrics c') = length ks) mcs /\
                   flat_map chunk_int_rows mcs = rows).
  { assert (Hcase : docs = [] \/ docs <> []) by (destruct docs; [left; reflexivity|right; discriminate]).
    destruct Hcase as [Hnil|Hne].
    - (* no sample at all: nothing is emitted *)
      assert (Hout : out = []).
      { unfold out. rewrite Hnil in Hlen |- *. destruct nows; [|discriminate Hlen]. reflexivity. }
      rewrite Hout in Erd. cbn in Erd. injection Erd as <-.
      split; [constructor|]. rewrite <- Hvrows, Hnil. reflexivity.
    - destruct Hok as (Hwf & _).
      destruct (ViewsProofs.c02_table deflate_flag inflate_flag OracleSoundC01.inflate_deflate_flag KSDyn bucket docs nows eq_refl Hb) as (mcs' & groups & Hrd & Hcat & Htab).
      + split; [exact Hne|]. split; [exact Hlen|]. split; [exact Hnz|].
        split.
        { intros a b Ha Hb'. rewrite Forall_forall in Hidocs.
          destruct (Hidocs a Ha) as [za [-> Hla]]. destruct (Hidocs b Hb') as [zb [-> Hlb]].
          rewrite !(idoc_skeleton _ _ OracleSoundC01.inflate_deflate_flag) by assumption. reflexivity. }
        split.
        { revert Hwf. apply Forall_impl. intros d (A & B & C & _). auto. }
        rewrite Forall_forall in Hwf. destruct (Hwf (hd [] docs)) as (_ & _ & _ & _ & Hm); [|exact Hm].
        destruct docs; [congruence|left; reflexivity].
      + exact I.
      + revert Hwf. apply Forall_impl. intros d (_ & _ & _ & D & _). exact D.
      + unfold read_chunks in Hrd. fold out in Hrd. rewrite Erd in Hrd. injection Hrd as <-.
        rewrite <- Hcat in Hidocs.
        assert (Hall : Forall2 (fun c' g => (field_names c' = ks /\ length (ck_metrics c') = length ks) /\
                                           chunk_int_rows c' = map (fun d => map snd (flatten_doc d)) g) mcs groups).
        { clear Hcat Hsz Hnp Erd Hc08. induction Htab as [|c' g mcs0 gs (Hne' & _ & Hnp' & Hky & Ht) _ IH]; [constructor|].
          cbn [concat] in Hidocs. apply Forall_app in Hidocs. destruct Hidocs as [Hg Hrest].
          constructor; [|apply IH; exact Hrest].
          split; [split|].
          - exact (pair_field_names ks c' g Hne' Hnp' Hky Ht Hg).
          - exact (pair_nmetrics ks c' g Hne' Hnp' Hky Ht Hg).
          - exact (pair_rows ks c' g Hne' Hnp' Hky Ht Hg). }
        split.
        * clear -Hall. induction Hall as [|c' g mcs0 gs [H1 _] _ IH]; constructor; assumption.
        * rewrite <- Hvrows, <- Hcat.
          clear -Hall. induction Hall as [|c' g mcs0 gs [_ H2] _ IH]; [reflexivity|].
          cbn [flat_map concat]. rewrite map_app, H2, IH. reflexivity. }
  destruct Hpairs as [Hfn Hrows].
  (* the evaluation cap does not bite *)
  assert (Hx : x_read out = (mcs, None)).
  { unfold x_read. apply read_chunks_cap; [exact Erd|].
    rewrite Forall_forall in Hfn, Hnp |- *. intros c' Hc'. destruct (Hfn c' Hc') as [_ Hm]. specialize (Hnp c' Hc').
    rewrite Hm, Hkl. eapply N.le_trans; [|exact Hcap]. apply N.mul_le_mono_l. lia. }
  rewrite Hx. exists mcs. split; [reflexivity|].
  assert (Hback : Forall (fun kr => fst kr = ks) (map chunk_view mcs)).
  { apply Forall_forall. intros kr Hkr. apply in_map_iff in Hkr. destruct Hkr as [c' [<- Hc']].
    rewrite Forall_forall in Hfn. exact (proj1 (Hfn c' Hc')). }
  assert (Hflat : flat_map snd (map chunk_view mcs) = rows).
  { rewrite <- Hrows. clear. induction mcs as [|c' r IH]; [reflexivity|]. cbn [map flat_map chunk_view snd]. rewrite IH. reflexivity. }
  split; [exact Hback|]. split; [exact Hflat|].
  unfold c18_ok_roundtrip. apply orb_true_iff. right. cbn [negb andb hd]. rewrite Hflat. fold rows.
  rewrite zrows_eqb_refl, andb_true_r. apply forallb_forall. intros kr Hkr.
  rewrite Forall_forall in Hback. rewrite (Hback kr Hkr). apply keys_eqb_refl.
Qed.
