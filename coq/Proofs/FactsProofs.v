(* General lemmas for the source-facts obligations (DESIGN.md 5b): Props/FactsTypes.v,
   Props/FactsKeys.v, Props/FactsCaps.v.  Nothing here mentions a generated TABLE; only the
   arm types [yield]/[carm] declared at the top of Generated/TypeTables.v are used.  The
   lemmas are about ARBITRARY tables satisfying a boolean premise; the premise is discharged
   by vm_compute over the regenerated tables in Props/Facts*.v. *)
From Coq Require Import String ZArith NArith List Bool Lia Arith.
From FV.Model Require Import Bytes Bson Metrics Events.
From FV.Proofs Require Import MetricsProofs CollectorBase.
From FV.Generated Require Import TypeTables.
Import ListNotations.
Local Open Scope nat_scope.

(* ------------------------------------------------------------------ *)
(* table lookup                                                         *)
(* ------------------------------------------------------------------ *)
Fixpoint lookup {A : Type} (tbl : list (string * N * A)) (t : N) : option A :=
  match tbl with
  | [] => None
  | (_, t', a) :: r => if N.eqb t t' then Some a else lookup r t
  end.

(* the arm a Go switch takes for the type byte t: the first matching case, else default *)
Definition arm_of {A : Type} (tbl : list (string * N * A)) (dflt : A) (t : N) : A :=
  match lookup tbl t with Some a => a | None => dflt end.

Definition yield_arity (y : yield) : option nat :=
  match y with Y n => Some n | YRec => None end.

(* how many metrics a value of BSON type t yields according to a producer table
   (None = the arm recurses into the container's elements) *)
Definition arity_from_table (tbl : list (string * N * yield)) (dflt : yield) (t : N) : option nat :=
  yield_arity (arm_of tbl dflt t).

Definition opt_nat_eqb (a b : option nat) : bool :=
  match a, b with
  | Some x, Some y => Nat.eqb x y
  | None, None => true
  | _, _ => false
  end.

Definition opt_N_eqb (a b : option N) : bool :=
  match a, b with
  | Some x, Some y => N.eqb x y
  | None, None => true
  | _, _ => false
  end.

Fixpoint nat_list_eqb (a b : list nat) : bool :=
  match a, b with
  | [], [] => true
  | x :: r, y :: s => Nat.eqb x y && nat_list_eqb r s
  | _, _ => false
  end.

Fixpoint N_list_eqb (a b : list N) : bool :=
  match a, b with
  | [], [] => true
  | x :: r, y :: s => N.eqb x y && N_list_eqb r s
  | _, _ => false
  end.

Lemma opt_nat_eqb_eq : forall a b, opt_nat_eqb a b = true -> a = b.
Proof.
  intros [x|] [y|] H; cbn in H; try discriminate; [|reflexivity].
  apply Nat.eqb_eq in H. now subst.
Qed.

(* the 256 values of a type byte *)
Definition tags256 : list N := map N.of_nat (seq 0 256).

Lemma tags256_complete : forall t, (t < 256)%N -> In t tags256.
Proof.
  intros t H. unfold tags256. apply in_map_iff. exists (N.to_nat t). split.
  - apply N2Nat.id.
  - apply in_seq. lia.
Qed.

Lemma sweep256 : forall f : N -> bool, forallb f tags256 = true -> forall t, (t < 256)%N -> f t = true.
Proof.
  intros f H t Ht. rewrite forallb_forall in H. apply H. now apply tags256_complete.
Qed.

(* ------------------------------------------------------------------ *)
(* the model's arity: Metrics.flatten on a representative of each       *)
(* constructor of Bson.value                                            *)
(* ------------------------------------------------------------------ *)
Definition all_reps : list value :=
  [ VDouble 0%Z; VString []; VDoc []; VArr []; VBinary 0%N []; VUndefined; VObjectID []; VBool false;
    VDateTime 0%Z; VNull; VRegex [] []; VDBPointer [] []; VJavaScript []; VSymbol [];
    VCodeWithScope [] []; VInt32 0%Z; VTimestamp 0%Z 0%Z; VInt64 0%Z; VDecimal128 []; VMaxKey; VMinKey ].

Definition rep_value (t : N) : option value := find (fun v => N.eqb (tag v) t) all_reps.

Definition is_container (t : N) : bool := N.eqb t 3 || N.eqb t 4.

(* None = container (flatten recurses); a byte that is no BSON type has no value, 0 *)
Definition model_arity (t : N) : option nat :=
  if is_container t then None
  else match rep_value t with Some v => Some (length (flatten v)) | None => Some 0 end.

(* every constructor has a representative with the same tag *)
Lemma rep_value_tag : forall v, exists r, rep_value (tag v) = Some r /\ tag r = tag v.
Proof. destruct v; eexists; split; reflexivity. Qed.

Definition agrees_with_model (ar : N -> option nat) : bool :=
  forallb (fun t => opt_nat_eqb (ar t) (model_arity t)) tags256.

Lemma agrees_with_model_spec : forall ar, agrees_with_model ar = true ->
  forall t, (t < 256)%N -> ar t = model_arity t.
Proof.
  intros ar H t Ht. apply opt_nat_eqb_eq.
  exact (sweep256 (fun t => opt_nat_eqb (ar t) (model_arity t)) H t Ht).
Qed.

(* ------------------------------------------------------------------ *)
(* the arity computed from a table, recursively over a value            *)
(* ------------------------------------------------------------------ *)
Fixpoint arity_rec (ar : N -> option nat) (v : value) : nat :=
  match v with
  | VDoc d =>
      match ar 3%N with
      | Some n => n
      | None => (fix go (l : list (bytes * value)) : nat :=
                   match l with [] => 0 | (_, x) :: r => arity_rec ar x + go r end) d
      end
  | VArr a =>
      match ar 4%N with
      | Some n => n
      | None => (fix go (l : list value) : nat :=
                   match l with [] => 0 | x :: r => arity_rec ar x + go r end) a
      end
  | _ => match ar (tag v) with Some n => n | None => 0 end
  end.

Fixpoint arity_doc (ar : N -> option nat) (d : doc) : nat :=
  match d with [] => 0 | (_, x) :: r => arity_rec ar x + arity_doc ar r end.
Fixpoint arity_arr (ar : N -> option nat) (a : list value) : nat :=
  match a with [] => 0 | x :: r => arity_rec ar x + arity_arr ar r end.

Lemma arity_rec_VDoc : forall ar d, ar 3%N = None -> arity_rec ar (VDoc d) = arity_doc ar d.
Proof.
  intros ar d H. cbn [arity_rec]. rewrite H.
  induction d as [|[k x] r IH]; [reflexivity|]. cbn [arity_doc]. now rewrite <- IH.
Qed.

Lemma arity_rec_VArr : forall ar a, ar 4%N = None -> arity_rec ar (VArr a) = arity_arr ar a.
Proof.
  intros ar a H. cbn [arity_rec]. rewrite H.
  induction a as [|x r IH]; [reflexivity|]. cbn [arity_arr]. now rewrite <- IH.
Qed.

Section TableIsModel.
  Variable ar : N -> option nat.
  Hypothesis Hag : agrees_with_model ar = true.

  Let Har : forall t, (t < 256)%N -> ar t = model_arity t := agrees_with_model_spec ar Hag.

  Definition flen_P (v : value) : Prop := length (flatten v) = arity_rec ar v.

  Lemma flen_doc_F : forall d, Forall (fun kv => flen_P (snd kv)) d ->
    length (flatten_doc d) = arity_doc ar d.
  Proof.
    intros d HF. induction HF as [|[k x] r Hx HF IH]; [reflexivity|].
    cbn [snd] in Hx. cbn [flatten_doc arity_doc]. rewrite app_length, Hx, IH. reflexivity.
  Qed.

  Lemma flen_arr_F : forall a, Forall flen_P a -> length (flatten_arr a) = arity_arr ar a.
  Proof.
    intros a HF. induction HF as [|x r Hx HF IH]; [reflexivity|].
    cbn [flatten_arr arity_arr]. rewrite app_length, Hx, IH. reflexivity.
  Qed.

  Ltac leaf := unfold flen_P; cbn [arity_rec tag]; rewrite Har by reflexivity; reflexivity.

  (* the table obligation is about the model's function: for EVERY value the number of
     metrics [flatten] produces is the one computed from the table *)
  Lemma flatten_length_table : forall v, length (flatten v) = arity_rec ar v.
  Proof.
    change (forall v, flen_P v).
    induction v using value_ind'; try leaf.
    - (* VDoc *) unfold flen_P.
      assert (H3 : ar 3%N = None) by (rewrite Har by reflexivity; reflexivity).
      rewrite arity_rec_VDoc by exact H3. rewrite flatten_VDoc. now apply flen_doc_F.
    - (* VArr *) unfold flen_P.
      assert (H4 : ar 4%N = None) by (rewrite Har by reflexivity; reflexivity).
      rewrite arity_rec_VArr by exact H4. rewrite flatten_VArr. now apply flen_arr_F.
  Qed.

  Lemma flatten_doc_length_table : forall d, length (flatten_doc d) = arity_doc ar d.
  Proof.
    intros d. apply flen_doc_F. apply Forall_forall. intros kv _. apply flatten_length_table.
  Qed.

  (* decoder side (metricForType) and schema hash (metricKeyHashValue) through the same table *)
  Lemma metrics_of_length_table : forall p k v, length (metrics_of p k v) = arity_rec ar v.
  Proof.
    intros p k v. rewrite <- flatten_length_table.
    rewrite <- (map_length m_type), <- (map_length fst (flatten v)).
    now rewrite (metrics_of_types_value v p k).
  Qed.

  Lemma hash_count_table : forall key v, snd (hash_keys key v) = Z.of_nat (arity_rec ar v).
  Proof. intros key v. rewrite (hcount_value v key). now rewrite flatten_length_table. Qed.
End TableIsModel.

(* ------------------------------------------------------------------ *)
(* recorded types                                                       *)
(* ------------------------------------------------------------------ *)
Definition mtype_tag (m : mtype) : N :=
  match m with MBool => 8 | MDouble => 1 | MInt32 => 16 | MInt64 => 18 | MDate => 9 | MTs => 17 end%N.

(* the model tags every metric of a leaf with the leaf's own BSON type *)
Lemma flatten_types_own : forall v, is_container (tag v) = false ->
  map (fun m => mtype_tag (fst m)) (flatten v) = repeat (tag v) (length (flatten v)).
Proof. destruct v; intros H; try reflexivity; discriminate H. Qed.

(* a (label, recorded types) table records, for every label, the label itself once per metric *)
Definition types_ok (ar : N -> option nat) (types : list (N * list N)) : bool :=
  forallb (fun e => match ar (fst e) with
                    | Some n => N_list_eqb (snd e) (repeat (fst e) n)
                    | None => false
                    end) types.

(* ... and lists exactly the non-recursive arms of the table, in order *)
Definition types_cover (tbl : list (string * N * yield)) (types : list (N * list N)) : bool :=
  N_list_eqb (map fst types)
             (map (fun e => snd (fst e)) (filter (fun e => match snd e with Y _ => true | YRec => false end) tbl)).

(* ------------------------------------------------------------------ *)
(* consumers                                                            *)
(* ------------------------------------------------------------------ *)
(* index-threading consumers (restoreElement: structured = true, rebuilds BSON elements;
   rehydrateMatrix: structured = false, only ever sees originalType of a metric) *)
Definition indexed_arm_ok (structured : bool) (t : N) (c : carm) : bool :=
  match model_arity t, c with
  | None, CRec ct => structured && N.eqb ct t
  | None, (CErr | CSkip) => negb structured
  | Some O, CSkip => true
  | Some O, CErr => negb structured
  | Some (S n), CLeaf s rd ct =>
      Nat.eqb s (S n) && nat_list_eqb rd (seq 0 (S n)) &&
      (if structured then opt_N_eqb ct (Some t) else opt_N_eqb ct None)
  | _, _ => false
  end.

Definition indexed_ok (structured : bool) (tbl : list (string * N * carm)) (dflt : carm) : bool :=
  forallb (fun t => indexed_arm_ok structured t (arm_of tbl dflt t)) tags256.

(* per-metric consumers (restoreFlat, getSeries, getRecord) are called once for each metric with
   its originalType, i.e. [n] times for a leaf yielding n metrics (types_ok); each call must use
   exactly its one slot.  [out t]: the BSON type rebuilt for a metric of type t (None: not BSON);
   [exact]: types that yield no metric must be skipped *)
Definition per_metric_arm_ok (out : N -> option N) (exact : bool) (t : N) (c : carm) : bool :=
  match model_arity t, c with
  | Some (S _), CLeaf s rd ct => Nat.eqb s 1 && nat_list_eqb rd [0] && opt_N_eqb ct (out t)
  | Some (S _), _ => false
  | _, CSkip => true
  | _, CLeaf s rd _ => negb exact && Nat.eqb s 1 && nat_list_eqb rd [0]
  | _, _ => false
  end.

Definition per_metric_ok (out : N -> option N) (exact : bool) (tbl : list (string * N * carm)) (dflt : carm) : bool :=
  forallb (fun t => per_metric_arm_ok out exact t (arm_of tbl dflt t)) tags256.

(* slots one VALUE of type t costs a consumer table: index-threading arms state it; a per-metric
   consumer is invoked once per metric of the value *)
Definition slots_indexed (tbl : list (string * N * carm)) (dflt : carm) (t : N) : option nat :=
  match arm_of tbl dflt t with
  | CLeaf s _ _ => Some s
  | CSkip | CErr => Some 0
  | CRec _ => None
  end.

Lemma indexed_ok_slots : forall st tbl dflt, indexed_ok st tbl dflt = true ->
  forall t, (t < 256)%N -> model_arity t <> None -> slots_indexed tbl dflt t = model_arity t.
Proof.
  intros st tbl dflt H t Ht Hne.
  pose proof (sweep256 _ H t Ht) as Ha. cbn beta in Ha.
  unfold slots_indexed, indexed_arm_ok in *.
  destruct (model_arity t) as [[|n]|]; [| |congruence];
    destruct (arm_of tbl dflt t) as [s rd ct|ct| |]; try discriminate Ha; try reflexivity.
  apply andb_true_iff in Ha. destruct Ha as [Ha _]. apply andb_true_iff in Ha. destruct Ha as [Ha _].
  apply Nat.eqb_eq in Ha. now subst.
Qed.

(* restoreFlat against the model's restore_flat: Int64 for the two slots of a timestamp *)
Definition flat_out (t : N) : option N := Some (if N.eqb t 17 then 18%N else t).

Definition ctor_of (c : carm) : option N :=
  match c with CLeaf _ _ ct => ct | CRec ct => Some ct | _ => None end.

Lemma restore_flat_tag : forall t x, Some (tag (restore_flat t x)) = flat_out (mtype_tag t).
Proof. destruct t; reflexivity. Qed.

Lemma per_metric_ok_ctor : forall out ex tbl dflt, per_metric_ok out ex tbl dflt = true ->
  forall m, ctor_of (arm_of tbl dflt (mtype_tag m)) = out (mtype_tag m).
Proof.
  intros out ex tbl dflt H m.
  assert (Ht : (mtype_tag m < 256)%N) by (destruct m; reflexivity).
  pose proof (sweep256 _ H _ Ht) as Ha. cbn beta in Ha. unfold per_metric_arm_ok in Ha.
  assert (Hm : exists n, model_arity (mtype_tag m) = Some (S n)) by (destruct m; eexists; reflexivity).
  destruct Hm as [n Hm]. rewrite Hm in Ha.
  destruct (arm_of tbl dflt (mtype_tag m)) as [s rd ct|ct| |]; try discriminate Ha.
  apply andb_true_iff in Ha. destruct Ha as [_ Ha]. cbn [ctor_of].
  destruct ct as [c|], (out (mtype_tag m)) as [o|]; cbn in Ha; try discriminate Ha; [|reflexivity].
  apply N.eqb_eq in Ha. now subst.
Qed.

(* ------------------------------------------------------------------ *)
(* key tables (PerfKeys)                                                *)
(* ------------------------------------------------------------------ *)
Definition path := list (list N).
Definition kentry := (path * string * N)%type.

Fixpoint path_eqb (a b : path) : bool :=
  match a, b with
  | [], [] => true
  | x :: r, y :: s => N_list_eqb x y && path_eqb r s
  | _, _ => false
  end.

Definition kentry_eqb (a b : kentry) : bool :=
  path_eqb (fst (fst a)) (fst (fst b)) && String.eqb (snd (fst a)) (snd (fst b)) && N.eqb (snd a) (snd b).

Lemma N_list_eqb_eq : forall a b, N_list_eqb a b = true <-> a = b.
Proof.
  induction a as [|x r IH]; destruct b as [|y s]; cbn; split; intros H; try reflexivity; try discriminate.
  - apply andb_true_iff in H. destruct H as [H1 H2]. apply N.eqb_eq in H1. apply IH in H2. now subst.
  - inversion H; subst. rewrite N.eqb_refl. cbn. now apply IH.
Qed.

Lemma path_eqb_eq : forall a b, path_eqb a b = true <-> a = b.
Proof.
  induction a as [|x r IH]; destruct b as [|y s]; cbn; split; intros H; try reflexivity; try discriminate.
  - apply andb_true_iff in H. destruct H as [H1 H2]. apply N_list_eqb_eq in H1. apply IH in H2. now subst.
  - inversion H; subst. apply andb_true_iff. split; [now apply N_list_eqb_eq | now apply IH].
Qed.

Lemma kentry_eqb_eq : forall a b, kentry_eqb a b = true <-> a = b.
Proof.
  intros [[p1 f1] t1] [[p2 f2] t2]. unfold kentry_eqb. cbn [fst snd]. split; intros H.
  - apply andb_true_iff in H. destruct H as [H H3]. apply andb_true_iff in H. destruct H as [H1 H2].
    apply path_eqb_eq in H1. apply String.eqb_eq in H2. apply N.eqb_eq in H3. now subst.
  - inversion H; subst. rewrite N.eqb_refl, String.eqb_refl.
    replace (path_eqb p2 p2) with true by (symmetry; now apply path_eqb_eq). reflexivity.
Qed.

Definition kmem (e : kentry) (l : list kentry) : bool := existsb (kentry_eqb e) l.
Definition kincl (a b : list kentry) : bool := forallb (fun e => kmem e b) a.

Lemma kmem_In : forall e l, kmem e l = true <-> In e l.
Proof.
  intros e l. unfold kmem. rewrite existsb_exists. split.
  - intros [x [Hx He]]. apply kentry_eqb_eq in He. now subst.
  - intros H. exists e. split; [assumption | now apply kentry_eqb_eq].
Qed.

Lemma kincl_incl : forall a b, kincl a b = true -> forall e, In e a -> In e b.
Proof.
  intros a b H e He. unfold kincl in H. rewrite forallb_forall in H. apply kmem_In. now apply H.
Qed.

(* no path occurs twice (a second case with the same key would shadow / be overwritten) *)
Fixpoint paths_nodup (l : list path) : bool :=
  match l with
  | [] => true
  | p :: r => negb (existsb (path_eqb p) r) && paths_nodup r
  end.

Lemma paths_nodup_NoDup : forall l, paths_nodup l = true -> NoDup l.
Proof.
  induction l as [|p r IH]; intros H; [constructor|].
  cbn in H. apply andb_true_iff in H. destruct H as [H1 H2]. constructor; [|now apply IH].
  intros Hin. apply negb_true_iff in H1.
  assert (existsb (path_eqb p) r = true) as Hc.
  { apply existsb_exists. exists p. split; [assumption | now apply path_eqb_eq]. }
  congruence.
Qed.

(* the premise [keys_agree]: same (path, field, type) entries on both sides, no path twice *)
Definition keys_agree_b (mk uk : list kentry) : bool :=
  kincl mk uk && kincl uk mk &&
  paths_nodup (map (fun e => fst (fst e)) mk) && paths_nodup (map (fun e => fst (fst e)) uk).

Lemma keys_agree_spec : forall mk uk, keys_agree_b mk uk = true ->
  (forall p f t, In (p, f, t) mk <-> In (p, f, t) uk) /\
  NoDup (map (fun e => fst (fst e)) mk) /\ NoDup (map (fun e => fst (fst e)) uk).
Proof.
  intros mk uk H. unfold keys_agree_b in H.
  apply andb_true_iff in H. destruct H as [H H4]. apply andb_true_iff in H. destruct H as [H H3].
  apply andb_true_iff in H. destruct H as [H1 H2].
  split; [|split; now apply paths_nodup_NoDup].
  intros p f t. split; intros Hin; [exact (kincl_incl _ _ H1 _ Hin) | exact (kincl_incl _ _ H2 _ Hin)].
Qed.

(* ---- the model's marshal / unmarshal driven by a key table ---- *)
(* the model's reading of a Go field path: the value MarshalDocument writes for it ... *)
Definition field_value (f : string) (p : perf) : option value :=
  if String.eqb f "Timestamp" then Some (VDateTime (p_ts p))
  else if String.eqb f "ID" then Some (VInt64 (p_id p))
  else if String.eqb f "Counters.Number" then Some (VInt64 (p_n p))
  else if String.eqb f "Counters.Operations" then Some (VInt64 (p_ops p))
  else if String.eqb f "Counters.Size" then Some (VInt64 (p_size p))
  else if String.eqb f "Counters.Errors" then Some (VInt64 (p_errors p))
  else if String.eqb f "Timers.Duration" then Some (VInt64 (p_dur p))
  else if String.eqb f "Timers.Total" then Some (VInt64 (p_total p))
  else if String.eqb f "Gauges.State" then Some (VInt64 (p_state p))
  else if String.eqb f "Gauges.Workers" then Some (VInt64 (p_workers p))
  else if String.eqb f "Gauges.Failed" then Some (VBool (p_failed p))
  else None.

(* ... and the assignment UnmarshalDocument makes to it (None = the birch accessor panics) *)
Definition field_set (f : string) (p : perf) (v : value) : option perf :=
  if String.eqb f "Timestamp" then match v with VDateTime x => Some (set_ts p x) | _ => None end
  else if String.eqb f "ID" then match v with VInt64 x => Some (set_id p x) | _ => None end
  else if String.eqb f "Counters.Number" then match v with VInt64 x => Some (set_n p x) | _ => None end
  else if String.eqb f "Counters.Operations" then match v with VInt64 x => Some (set_ops p x) | _ => None end
  else if String.eqb f "Counters.Size" then match v with VInt64 x => Some (set_size p x) | _ => None end
  else if String.eqb f "Counters.Errors" then match v with VInt64 x => Some (set_errors p x) | _ => None end
  else if String.eqb f "Timers.Duration" then match v with VInt64 x => Some (set_dur p x) | _ => None end
  else if String.eqb f "Timers.Total" then match v with VInt64 x => Some (set_total p x) | _ => None end
  else if String.eqb f "Gauges.State" then match v with VInt64 x => Some (set_state p x) | _ => None end
  else if String.eqb f "Gauges.Workers" then match v with VInt64 x => Some (set_workers p x) | _ => None end
  else if String.eqb f "Gauges.Failed" then match v with VBool x => Some (set_failed p x) | _ => None end
  else None.

(* entries directly below [pre] *)
Definition children (pre : path) (tbl : list kentry) : list (list N * string * N) :=
  flat_map (fun e => match e with
                     | (p, f, t) =>
                         match rev p with
                         | k :: rp => if path_eqb (rev rp) pre then [(k, f, t)] else []
                         | [] => []
                         end
                     end) tbl.

(* MarshalDocument read off a table: two levels (Performance and its sub-documents) *)
Definition leaf_elem (p : perf) (e : list N * string * N) : option (bytes * value) :=
  match e with
  | (k, f, t) => match field_value f p with
                 | Some v => if N.eqb (tag v) t then Some (k, v) else None
                 | None => None
                 end
  end.

Fixpoint all_some {A : Type} (l : list (option A)) : option (list A) :=
  match l with
  | [] => Some []
  | Some x :: r => match all_some r with Some xs => Some (x :: xs) | None => None end
  | None :: _ => None
  end.

Definition marshal_from_table (tbl : list kentry) (p : perf) : option doc :=
  all_some (map (fun e => match e with
                          | (k, f, t) =>
                              if N.eqb t 3
                              then match all_some (map (leaf_elem p) (children [k] tbl)) with
                                   | Some sub => Some (k, VDoc sub)
                                   | None => None
                                   end
                              else leaf_elem p (k, f, t)
                          end) (children [] tbl)).

(* UnmarshalDocument read off a table *)
Fixpoint find_case (k : bytes) (cases : list (list N * string * N)) : option (list N * string * N) :=
  match cases with
  | [] => None
  | (k', f, t) :: r => if key_eqb k k' then Some (k', f, t) else find_case k r
  end.

Fixpoint unmarshal_sub (cases : list (list N * string * N)) (p : perf) (d : doc) : option perf :=
  match d with
  | [] => Some p
  | (k, v) :: r =>
      match find_case k cases with
      | Some (_, f, _) => match field_set f p v with Some p1 => unmarshal_sub cases p1 r | None => None end
      | None => unmarshal_sub cases p r
      end
  end.

Fixpoint unmarshal_from_table (tbl : list kentry) (p : perf) (d : doc) : option perf :=
  match d with
  | [] => Some p
  | (k, v) :: r =>
      match find_case k (children [] tbl) with
      | Some (k', f, t) =>
          if N.eqb t 3
          then match v with
               | VDoc sub => match unmarshal_sub (children [k'] tbl) p sub with
                             | Some p1 => unmarshal_from_table tbl p1 r
                             | None => None
                             end
               | _ => None
               end
          else match field_set f p v with Some p1 => unmarshal_from_table tbl p1 r | None => None end
      | None => unmarshal_from_table tbl p r
      end
  end.
