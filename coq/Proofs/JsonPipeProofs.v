(* C19: the two select loops of the metrics package.  Pure facts about the
   transition systems first, then the composition with the collector
   invariants of C07 (CollectorInv / CollectorLog / CollectorKinds). *)
From Coq Require Import ZArith NArith List Bool Lia Arith.
From FV.Model Require Import Bytes Bson Metrics Codec Collector Wf RoundTrip CollectorOk Instance JsonPipe JsonPipeOk.
From FV.Proofs Require Import BytesProofs BsonProofs MetricsProofs CodecChunk CodecProofs CollectorBase
  CollectorKinds CollectorInv CollectorLog CollectorSizes CollectorProofs.
Import ListNotations.
Open Scope Z_scope.

(* ================================================================== the source *)
Definition item_not_eof (i : item) : Prop :=
  match i with IErr k => src_is_eof k = false | IDoc _ => True end.

Lemma map_IDoc_inj : forall a b, map IDoc a = map IDoc b -> a = b.
Proof.
  induction a as [|x a IH]; intros [|y b] H; try discriminate H; [reflexivity|].
  cbn [map] in H. injection H as -> H. f_equal. apply IH. exact H.
Qed.

Lemma IErr_not_in_docs : forall k ds, ~ In (IErr k) (map IDoc ds).
Proof. intros k ds H. apply in_map_iff in H. destruct H as (d & Hd & _). discriminate Hd. Qed.

Lemma docs_no_err : forall ds sent k rest, map IDoc ds <> map IDoc sent ++ IErr k :: rest.
Proof.
  intros ds sent k rest H. apply (IErr_not_in_docs k ds). rewrite H. apply in_or_app. right. left. reflexivity.
Qed.

(* a token the library refuses, a line that is too long, or a failing reader *)
Definition input_bad (parse : bytes -> pres) (ls : list bytes) (e : scan_end) : Prop :=
  e <> ScanEof \/ exists l, In l ls /\ parse l = PBad.

(* the script of the source goroutine: either every token parsed and the scan
   ended at EOF, and the script is exactly the parsed documents; or the input is
   bad and the script ends with an error *)
Lemma script_cases : forall parse eofc ls e,
  (e = ScanEof /\ exists docs, Forall2 (fun l d => parse l = PDoc d) ls docs /\ script parse eofc ls e = map IDoc docs) \/
  (input_bad parse ls e /\ exists sent k, script parse eofc ls e = map IDoc sent ++ [IErr k] /\
     (k = STooLong \/ k = SRead eofc \/ k = SParse)).
Proof.
  intros parse eofc ls e. induction ls as [|l ls IH]; cbn [script].
  - destruct e.
    + left. split; [reflexivity|]. exists []. split; [constructor|reflexivity].
    + right. split; [left; discriminate|]. exists [], STooLong. split; [reflexivity|]. left. reflexivity.
    + right. split; [left; discriminate|]. exists [], (SRead eofc). split; [reflexivity|]. right. left. reflexivity.
  - destruct (parse l) as [d|] eqn:Ep.
    + destruct IH as [(He & docs & HF & Hs)|(Hbad & sent & k & Hs & Hk)].
      * left. split; [exact He|]. exists (d :: docs). split; [constructor; assumption|]. rewrite Hs. reflexivity.
      * right. split.
        { destruct Hbad as [Hbad|(l' & Hin & Hp)]; [left; exact Hbad|].
          right. exists l'. split; [right; exact Hin|exact Hp]. }
        exists (d :: sent), k. split; [rewrite Hs; reflexivity|exact Hk].
    + right. split; [right; exists l; split; [left; reflexivity|exact Ep]|].
      exists [], SParse. split; [reflexivity|]. right. right. reflexivity.
Qed.

(* ================================================================== CollectJSONStream, the loop alone *)
Section Loop.
Variable deflate : bytes -> bytes.

(* all Adds, in order, succeeded *)
Inductive fed : dyn -> list doc -> dyn -> Prop :=
| fed_nil : forall c, fed c [] c
| fed_cons : forall c d now c' ds c'', dy_add c d now = (c', ROk) -> fed c' ds c'' -> fed c (d :: ds) c''.

Lemma j_run_final : forall s evs s' r, j_res s = Some r -> j_run deflate s evs = Some s' -> s' = s /\ evs = [].
Proof.
  intros s [|e evs] s' r Hr Hrun; cbn [j_run] in Hrun.
  - injection Hrun as <-. split; reflexivity.
  - unfold j_step in Hrun. rewrite Hr in Hrun. discriminate Hrun.
Qed.

Ltac fin Hrun :=
  match type of Hrun with
  | j_run _ ?s1 _ = Some _ => destruct (j_run_final s1 _ _ _ eq_refl Hrun) as [-> _]
  end.

(* what a finished run can have returned, for every schedule in which the timer
   does not fire before the source is exhausted (and, if [cancel] is set, the
   context is never cancelled) *)
Definition j_outcome (cancel : bool) (s : jstate) (r : jres) : Prop :=
  exists sent c, fed (j_coll s) sent c /\
    ((j_src s = map IDoc sent /\ r = j_flush deflate c) \/
     (exists k rest, j_src s = map IDoc sent ++ IErr k :: rest /\
                     r = if src_is_eof k then j_flush deflate c else JErr (JSrc k)) \/
     (exists d rest now a, j_src s = map IDoc sent ++ IDoc d :: rest /\
                           snd (dy_add c d now) = a /\ a <> ROk /\ r = JErr (JAdd a)) \/
     (cancel = false /\ r = JErr JAbort)).

Lemma j_run_outcome : forall cancel evs s s' r,
  j_res s = None -> j_run deflate s evs = Some s' -> j_res s' = Some r ->
  j_early deflate true cancel s evs = false -> j_outcome cancel s r.
Proof.
  intros cancel. induction evs as [|e evs IH]; intros s s' r Hnone Hrun Hres Hearly.
  - cbn [j_run] in Hrun. injection Hrun as <-. rewrite Hnone in Hres. discriminate Hres.
  - cbn [j_run] in Hrun. cbn [j_early] in Hearly. apply orb_false_iff in Hearly. destruct Hearly as [He1 He2].
    destruct (j_step deflate s e) as [s1|] eqn:Estep; [|discriminate Hrun].
    unfold j_step in Estep. rewrite Hnone in Estep.
    destruct e as [now| | | |].
    + (* a document arrives *)
      destruct (j_src s) as [|[d|k] rest] eqn:Esrc; try discriminate Estep.
      destruct (dy_add (j_coll s) d now) as [c' a] eqn:Eadd. injection Estep as <-.
      destruct a.
      * destruct (IH (mkJ c' rest None) _ _ eq_refl Hrun Hres He2) as (sent & c & Hfed & Hcases). cbn [j_coll j_src] in *.
        exists (d :: sent), c. split; [apply (fed_cons _ d now c'); assumption|].
        destruct Hcases as [(Hs & Hr)|[(k & rest' & Hs & Hr)|[(d' & rest' & now' & a & Hs & Ha & Hne & Hr)|Hc]]].
        -- left. split; [rewrite Esrc, Hs; reflexivity|exact Hr].
        -- right. left. exists k, rest'. split; [rewrite Esrc, Hs; reflexivity|exact Hr].
        -- right. right. left. exists d', rest', now', a. split; [rewrite Esrc, Hs; reflexivity|]. repeat split; assumption.
        -- right. right. right. exact Hc.
      * fin Hrun. cbn [j_res] in Hres. injection Hres as <-.
        exists [], (j_coll s). split; [constructor|]. right. right. left. exists d, rest, now, RFull.
        split; [exact Esrc|]. rewrite Eadd. repeat split. discriminate.
      * fin Hrun. cbn [j_res] in Hres. injection Hres as <-.
        exists [], (j_coll s). split; [constructor|]. right. right. left. exists d, rest, now, RCount.
        split; [exact Esrc|]. rewrite Eadd. repeat split. discriminate.
      * fin Hrun. cbn [j_res] in Hres. injection Hres as <-.
        exists [], (j_coll s). split; [constructor|]. right. right. left. exists d, rest, now, RTypes.
        split; [exact Esrc|]. rewrite Eadd. repeat split. discriminate.
      * fin Hrun. cbn [j_res] in Hres. injection Hres as <-.
        exists [], (j_coll s). split; [constructor|]. right. right. left. exists d, rest, now, RFlush.
        split; [exact Esrc|]. rewrite Eadd. repeat split. discriminate.
      * fin Hrun. cbn [j_res] in Hres. injection Hres as <-.
        exists [], (j_coll s). split; [constructor|]. right. right. left. exists d, rest, now, RNoWriter.
        split; [exact Esrc|]. rewrite Eadd. repeat split. discriminate.
    + (* an error arrives *)
      destruct (j_src s) as [|[d|k] rest] eqn:Esrc; try discriminate Estep. injection Estep as <-.
      fin Hrun. cbn [j_res] in Hres. injection Hres as <-.
      exists [], (j_coll s). split; [constructor|]. right. left. exists k, rest. split; [exact Esrc|reflexivity].
    + (* errs is closed *)
      destruct (j_src s) as [|i rest] eqn:Esrc; try discriminate Estep. injection Estep as <-.
      fin Hrun. cbn [j_res j_done] in Hres. injection Hres as <-.
      exists [], (j_coll s). split; [constructor|]. left. split; [exact Esrc|reflexivity].
    + (* the timer: only when the source is exhausted *)
      injection Estep as <-.
      fin Hrun. cbn [j_res j_done] in Hres. injection Hres as <-.
      destruct (j_src s) as [|i rest] eqn:Esrc; [|discriminate He1].
      exists [], (j_coll s). split; [constructor|]. left. split; [exact Esrc|reflexivity].
    + (* cancellation *)
      injection Estep as <-.
      fin Hrun. cbn [j_res j_done] in Hres. injection Hres as <-.
      exists [], (j_coll s). split; [constructor|]. right. right. right. split; [|reflexivity].
      destruct (j_src s); exact He1.
Qed.

(* liveness of the loop in a calm environment: from every state there is a
   schedule without timer and cancellation that ends the run, of at most one
   event per item plus one *)
Lemma j_calm_runs : forall items c,
  exists evs s, j_run deflate (mkJ c items None) evs = Some s /\ j_res s <> None /\
                j_early deflate true true (mkJ c items None) evs = false /\
                (length evs <= S (length items))%nat.
Proof.
  induction items as [|[d|k] items IH]; intros c.
  - exists [EvClosed]. cbn [j_run j_step j_res j_src j_early]. eexists. split; [reflexivity|].
    split; [discriminate|]. split; [reflexivity|cbn [length]; lia].
  - destruct (dy_add c d 0) as [c' a] eqn:Eadd.
    assert (Estep : j_step deflate (mkJ c (IDoc d :: items) None) (EvDoc 0) =
                    Some (mkJ c' items (match a with ROk => None | _ => Some (JErr (JAdd a)) end))).
    { unfold j_step. cbn [j_res j_src j_coll]. rewrite Eadd. reflexivity. }
    destruct a; try (exists [EvDoc 0]; cbn [j_run j_early]; rewrite Estep; cbn [j_src orb j_early];
                     eexists; split; [reflexivity|]; split; [discriminate|]; split; [reflexivity|cbn [length]; lia]).
    destruct (IH c') as (evs & s & Hrun & Hres & Hearly & Hlen). exists (EvDoc 0 :: evs), s.
    cbn [j_run j_early]. rewrite Estep. cbn [j_src orb].
    split; [exact Hrun|]. split; [exact Hres|]. split; [exact Hearly|cbn [length]; lia].
  - exists [EvErr]. cbn [j_run j_early]. unfold j_step. cbn [j_res j_src j_coll].
    eexists. split; [reflexivity|]. split; [discriminate|]. split; [reflexivity|cbn [length]; lia].
Qed.

End Loop.

(* ================================================================== what the flushed bytes decode to *)
Section Decode.
Variable deflate : bytes -> bytes.
Variable inflate : bytes -> option bytes.
Hypothesis inflate_deflate : forall p, inflate (deflate p) = Some p.
Variable D : doc -> Prop.
Hypothesis Henv : env_ok D KDyn.
Variable n : Z.
Hypothesis Hn : 1 <= n < 2 ^ 31.

Lemma wstream_nil_inv : forall m gs, wstream deflate m [] gs -> gs = [].
Proof. intros m gs H. inversion H. reflexivity. Qed.

(* the dynamic collector of CollectJSONStream never sees a writer: C07's
   invariant with nothing written *)
Definition dyn_holds (c : dyn) (gsp : list (list doc)) : Prop :=
  INV deflate D KDyn n (CDyn c, new_file) [] gsp.

Lemma dyn_holds_init : dyn_holds (dy_new n) [].
Proof. apply (inv_init deflate D KDyn n eq_refl). lia. Qed.

Lemma fed_holds : forall c ds c', fed c ds c' -> Forall D ds -> forall gsp,
  dyn_holds c gsp -> exists gsp', dyn_holds c' gsp' /\ concat gsp' = concat gsp ++ ds.
Proof.
  induction 1 as [c|c d now c' ds c'' Hadd Hfed IH]; intros HD gsp Hinv.
  - exists gsp. split; [exact Hinv|rewrite app_nil_r; reflexivity].
  - inversion HD as [|x y Hd HD']; subst.
    destruct (inv_add deflate D KDyn n (CDyn c) new_file [] gsp d now eq_refl Henv ltac:(lia) Hinv Hd)
      as (cc & w' & r & Hcadd & Hcase).
    cbn [c_add] in Hcadd. rewrite Hadd in Hcadd. injection Hcadd as <- <- <-.
    destruct Hcase as [(_ & gsw' & gsp' & Hinv' & Hcont)|(Hne & _)]; [|congruence].
    assert (gsw' = []) as ->.
    { destruct Hinv' as (_ & Hw & _). cbn [snd] in Hw. apply wstream_nil_inv in Hw. exact Hw. }
    unfold contents in Hcont. cbn [concat app] in Hcont.
    destruct (IH HD' gsp' Hinv') as (gsp'' & Hinv'' & Hc''). exists gsp''. split; [exact Hinv''|].
    rewrite Hc'', Hcont, <- app_assoc. reflexivity.
Qed.

Lemma flush_decodes : forall c gsp, dyn_holds c gsp ->
  exists out dec, j_flush deflate c = JOk out /\ decode_ftdc inflate None out = Some dec /\
                  dc_docs dec = map strip_doc (concat gsp) /\
                  forallb (fun z => z <=? n) (dc_sizes dec) = true.
Proof.
  intros c gsp Hinv.
  destruct (inv_check deflate inflate inflate_deflate D KDyn n _ [] gsp eq_refl Henv Hn Hinv)
    as (wd & rd & Hdw & Hdr & Hwdocs & Hrdocs & Hws & Hrs & Hcap & Hinfo).
  cbn [fst snd c_info c_resolve] in Hdr, Hinfo. unfold j_flush. rewrite Hinfo.
  destruct (glen (concat gsp) =? 0) eqn:E0.
  - apply Z.eqb_eq in E0. apply glen_zero in E0. exists [], (mkDecoded [] [] []). rewrite E0.
    split; [reflexivity|]. split; [reflexivity|]. split; reflexivity.
  - apply Z.eqb_neq in E0. destruct (dy_resolve deflate c) as [out|] eqn:Er; cbn [decode_out] in Hdr.
    + exists out, rd. split; [reflexivity|]. split; [exact Hdr|]. split; [exact Hrdocs|].
      rewrite Hws in Hcap. cbn [map app cap_of] in Hcap. exact Hcap.
    + injection Hdr as <-. cbn [dc_docs] in Hrdocs. exfalso. apply E0.
      destruct (concat gsp); [reflexivity|discriminate Hrdocs].
Qed.

(* all documents fed to a fresh collector: its flush decodes to their numeric
   projection, in order, in chunks of at most n samples *)
Lemma fed_flush_decodes : forall docs c, fed (dy_new n) docs c -> Forall D docs ->
  exists out dec, j_flush deflate c = JOk out /\ decode_ftdc inflate None out = Some dec /\
                  dc_docs dec = map strip_doc docs /\ forallb (fun z => z <=? n) (dc_sizes dec) = true.
Proof.
  intros docs c Hfed HD.
  destruct (fed_holds _ _ _ Hfed HD [] dyn_holds_init) as (gsp & Hinv & Hc). cbn [concat app] in Hc.
  destruct (flush_decodes c gsp Hinv) as (out & dec & Hfl & Hdec & Hdocs & Hsz).
  exists out, dec. rewrite Hc in Hdocs. repeat split; assumption.
Qed.

End Decode.

(* ================================================================== CollectJSONStream on an input *)
Section Json.
Variable deflate : bytes -> bytes.
Variable inflate : bytes -> option bytes.
Hypothesis inflate_deflate : forall p, inflate (deflate p) = Some p.
Variable parse : bytes -> pres.
(* throughout: a failing reader fails with an error whose cause is not io.EOF
   (the [false] argument of [script]); the select loop would take a wrapped
   io.EOF for the end of the input *)
Notation script := (script parse false).

Definition item_docs_in (P : doc -> Prop) (items : list item) : Prop :=
  forall d, In (IDoc d) items -> P d.

Lemma in_docs : forall d docs, In d docs -> In (IDoc d) (map IDoc docs).
Proof. intros d docs H. apply in_map. exact H. Qed.

Theorem json_complete : forall ls e n evs s r,
  1 <= n < 2 ^ 31 ->
  let items := script ls e in
  (forall d, In (IDoc d) items -> doc_wf d) ->
  distinguishable KDyn (fun d => In (IDoc d) items) ->
  j_run deflate (j_init true n items) evs = Some s -> j_res s = Some r ->
  j_early deflate true true (j_init true n items) evs = false ->
  (e = ScanEof /\ exists docs, Forall2 (fun l d => parse l = PDoc d) ls docs /\
     ((exists out dec, r = JOk out /\ decode_ftdc inflate None out = Some dec /\
                       dc_docs dec = map strip_doc docs /\ forallb (fun z => z <=? n) (dc_sizes dec) = true) \/
      (exists a, a <> ROk /\ r = JErr (JAdd a)))) \/
  (input_bad parse ls e /\ exists e', r = JErr e').
Proof.
  intros ls e n evs s r Hn items Hwf Hdist Hrun Hres Hearly.
  pose proof (j_run_outcome deflate true evs (j_init true n items) _ _ eq_refl Hrun Hres Hearly) as (sent & c & Hfed & Hcases).
  cbn [j_init j_src j_coll] in Hfed, Hcases. fold items in Hcases.
  destruct (script_cases parse false ls e) as [(He & docs & HF & Hs)|(Hbad & sent0 & k0 & Hs & Hk0)]; fold items in Hs.
  - left. split; [exact He|]. exists docs. split; [exact HF|].
    destruct Hcases as [(Hsrc & Hr)|[(k & rest & Hsrc & _)|[(d & rest & now & a & _ & _ & Hne & Hr)|(Hc & _)]]].
    + left. rewrite Hs in Hsrc. apply map_IDoc_inj in Hsrc. subst sent.
      destruct (fed_flush_decodes deflate inflate inflate_deflate (fun d => In (IDoc d) items) (conj Hwf Hdist) n Hn docs c Hfed)
        as (out & dec & Hfl & Hdec & Hdocs & Hsz).
      { apply Forall_forall. intros d Hd. rewrite Hs. apply in_docs. exact Hd. }
      exists out, dec. rewrite Hr, Hfl. repeat split; assumption.
    + exfalso. rewrite Hs in Hsrc. exact (docs_no_err _ _ _ _ Hsrc).
    + right. exists a. split; assumption.
    + discriminate Hc.
  - right. split; [exact Hbad|].
    destruct Hcases as [(Hsrc & Hr)|[(k & rest & Hsrc & Hr)|[(d & rest & now & a & _ & _ & Hne & Hr)|(Hc & _)]]].
    + exfalso. rewrite Hs in Hsrc. symmetry in Hsrc. exact (docs_no_err _ _ _ _ Hsrc).
    + assert (Hk : src_is_eof k = false).
      { assert (Hin : In (IErr k) (map IDoc sent0 ++ [IErr k0])).
        { rewrite <- Hs, Hsrc. apply in_or_app. right. left. reflexivity. }
        apply in_app_or in Hin. destruct Hin as [Hin|[Hin|[]]]; [exfalso; exact (IErr_not_in_docs _ _ Hin)|].
        injection Hin as <-. destruct Hk0 as [->|[->| ->]]; reflexivity. }
      rewrite Hk in Hr. eexists. exact Hr.
    + eexists. exact Hr.
    + discriminate Hc.
Qed.

(* a nil error means every line was scanned, parsed and added; cancellation is
   allowed here (it yields an error) *)
Theorem json_never_short : forall ls e n evs s out,
  let items := script ls e in
  j_run deflate (j_init true n items) evs = Some s -> j_res s = Some (JOk out) ->
  j_early deflate true false (j_init true n items) evs = false ->
  e = ScanEof /\ exists docs c, Forall2 (fun l d => parse l = PDoc d) ls docs /\
    fed (dy_new n) docs c /\ JOk out = j_flush deflate c.
Proof.
  intros ls e n evs s out items Hrun Hres Hearly.
  pose proof (j_run_outcome deflate false evs (j_init true n items) _ _ eq_refl Hrun Hres Hearly) as (sent & c & Hfed & Hcases).
  cbn [j_init j_src j_coll] in Hfed, Hcases. fold items in Hcases.
  destruct (script_cases parse false ls e) as [(He & docs & HF & Hs)|(Hbad & sent0 & k0 & Hs & Hk0)]; fold items in Hs.
  - split; [exact He|].
    destruct Hcases as [(Hsrc & Hr)|[(k & rest & Hsrc & _)|[(d & rest & now & a & _ & _ & Hne & Hr)|(_ & Hr)]]].
    + rewrite Hs in Hsrc. apply map_IDoc_inj in Hsrc. subst sent. exists docs, c. repeat split; assumption.
    + exfalso. rewrite Hs in Hsrc. exact (docs_no_err _ _ _ _ Hsrc).
    + discriminate Hr.
    + discriminate Hr.
  - exfalso.
    destruct Hcases as [(Hsrc & Hr)|[(k & rest & Hsrc & Hr)|[(d & rest & now & a & _ & _ & Hne & Hr)|(_ & Hr)]]].
    + rewrite Hs in Hsrc. symmetry in Hsrc. exact (docs_no_err _ _ _ _ Hsrc).
    + assert (Hk : src_is_eof k = false).
      { assert (Hin : In (IErr k) (map IDoc sent0 ++ [IErr k0])).
        { rewrite <- Hs, Hsrc. apply in_or_app. right. left. reflexivity. }
        apply in_app_or in Hin. destruct Hin as [Hin|[Hin|[]]]; [exfalso; exact (IErr_not_in_docs _ _ Hin)|].
        injection Hin as <-. destruct Hk0 as [->|[->| ->]]; reflexivity. }
      rewrite Hk in Hr. discriminate Hr.
    + discriminate Hr.
    + discriminate Hr.
Qed.

(* the documents of the lines the library accepts *)
Definition parsed (ls : list bytes) : list doc :=
  flat_map (fun l => match parse l with PDoc d => [d] | PBad => [] end) ls.

Lemma parsed_all : forall ls docs, Forall2 (fun l d => parse l = PDoc d) ls docs -> parsed ls = docs.
Proof.
  intros ls docs H. induction H as [|l d ls docs Hp H IH]; [reflexivity|].
  unfold parsed. cbn [flat_map]. rewrite Hp. cbn [app]. f_equal. exact IH.
Qed.

Lemma IDoc_in : forall d docs, In (IDoc d) (map IDoc docs) -> In d docs.
Proof. intros d docs H. apply in_map_iff in H. destruct H as (x & Hx & Hin). injection Hx as ->. exact Hin. Qed.

(* composition with C08 (every Add of the dynamic collector succeeds when no
   document changes value types alone): the call returns the complete result or,
   on a bad input, an error *)
Theorem json_total : forall ls e n evs s r,
  1 <= n < 2 ^ 31 -> docs_ok KDyn (parsed ls) ->
  let items := script ls e in
  j_run deflate (j_init true n items) evs = Some s -> j_res s = Some r ->
  j_early deflate true true (j_init true n items) evs = false ->
  (e = ScanEof /\ Forall2 (fun l d => parse l = PDoc d) ls (parsed ls) /\
   exists out dec, r = JOk out /\ decode_ftdc inflate None out = Some dec /\
                   dc_docs dec = map strip_doc (parsed ls) /\ forallb (fun z => z <=? n) (dc_sizes dec) = true) \/
  (input_bad parse ls e /\ exists e', r = JErr e').
Proof.
  intros ls e n evs s r Hn Hok items Hrun Hres Hearly.
  pose proof (j_run_outcome deflate true evs (j_init true n items) _ _ eq_refl Hrun Hres Hearly) as (sent & c & Hfed & Hcases).
  cbn [j_init j_src j_coll] in Hfed, Hcases. fold items in Hcases.
  destruct (script_cases parse false ls e) as [(He & docs & HF & Hs)|(Hbad & sent0 & k0 & Hs & Hk0)]; fold items in Hs.
  - left. split; [exact He|]. rewrite (parsed_all ls docs HF) in *. split; [exact HF|].
    destruct Hok as (Hwf & Hdist & Hnt).
    assert (Henv : env_ok (fun d => In d docs) KDyn).
    { split; [|exact Hdist]. intros d Hd. exact (proj1 (Forall_forall _ _) Hwf d Hd). }
    destruct Hcases as [(Hsrc & Hr)|[(k & rest & Hsrc & _)|[(d & rest & now & a & Hsrc & Ha & Hne & Hr)|(Hc & _)]]].
    + rewrite Hs in Hsrc. apply map_IDoc_inj in Hsrc. subst sent.
      destruct (fed_flush_decodes deflate inflate inflate_deflate (fun d => In d docs) Henv n Hn docs c Hfed)
        as (out & dec & Hfl & Hdec & Hdocs & Hsz).
      { apply Forall_forall. intros d Hd. exact Hd. }
      exists out, dec. rewrite Hr, Hfl. repeat split; assumption.
    + exfalso. rewrite Hs in Hsrc. exact (docs_no_err _ _ _ _ Hsrc).
    + exfalso. rewrite Hs in Hsrc.
      assert (Hd : In d docs).
      { apply IDoc_in. rewrite Hsrc. apply in_or_app. right. left. reflexivity. }
      assert (Hsent : Forall (fun x => In x docs) sent).
      { apply Forall_forall. intros x Hx. apply IDoc_in. rewrite Hsrc. apply in_or_app. left. apply in_docs. exact Hx. }
      destruct (fed_holds deflate (fun d => In d docs) Henv n Hn _ _ _ Hfed Hsent [] (dyn_holds_init deflate _ n Hn))
        as (gsp & Hinv & _).
      destruct (c8_add deflate KDyn docs n (CDyn c) new_file [] gsp d now (or_introl eq_refl) ltac:(lia) Henv Hnt Hinv
                  ltac:(intros _; reflexivity) Hd) as (c' & w' & _ & _ & Hadd & _).
      cbn [c_add] in Hadd. destruct (dy_add c d now) as [x' a']. cbn [snd] in Ha. subst a'.
      injection Hadd as _ _ Ea. apply Hne. exact Ea.
    + discriminate Hc.
  - right. split; [exact Hbad|].
    destruct Hcases as [(Hsrc & Hr)|[(k & rest & Hsrc & Hr)|[(d & rest & now & a & _ & _ & Hne & Hr)|(Hc & _)]]].
    + exfalso. rewrite Hs in Hsrc. symmetry in Hsrc. exact (docs_no_err _ _ _ _ Hsrc).
    + assert (Hk : src_is_eof k = false).
      { assert (Hin : In (IErr k) (map IDoc sent0 ++ [IErr k0])).
        { rewrite <- Hs, Hsrc. apply in_or_app. right. left. reflexivity. }
        apply in_app_or in Hin. destruct Hin as [Hin|[Hin|[]]]; [exfalso; exact (IErr_not_in_docs _ _ Hin)|].
        injection Hin as <-. destruct Hk0 as [->|[->| ->]]; reflexivity. }
      rewrite Hk in Hr. eexists. exact Hr.
    + eexists. exact Hr.
    + discriminate Hc.
Qed.

End Json.

(* ================================================================== CollectRuntime *)
Lemma gens_snoc : forall gen ts i t,
  gens gen i (ts ++ [t]) = gens gen i ts ++ [gen (i + Z.of_nat (length ts)) t].
Proof.
  intros gen. induction ts as [|x ts IH]; intros i t; cbn [gens app length].
  - rewrite Z.add_0_r. reflexivity.
  - rewrite IH. replace (i + Z.of_nat (S (length ts))) with (i + 1 + Z.of_nat (length ts)) by lia. reflexivity.
Qed.

Lemma collect_times_app : forall a b, collect_times (a ++ b) = collect_times a ++ collect_times b.
Proof.
  induction a as [|[t| |] a IH]; intros b; cbn [app collect_times]; rewrite ?IH; reflexivity.
Qed.

Lemma zseq_snoc : forall k i, zseq i (S k) = zseq i k ++ [i + Z.of_nat k].
Proof.
  induction k as [|k IH]; intros i.
  - cbn [zseq app Z.of_nat]. rewrite Z.add_0_r. reflexivity.
  - change (zseq i (S (S k))) with (i :: zseq (i + 1) (S k)). rewrite IH. cbn [zseq app]. replace (i + Z.of_nat (S k)) with (i + 1 + Z.of_nat k) by lia. reflexivity.
Qed.

Section Runtime.
Variable deflate : bytes -> bytes.
Variable inflate : bytes -> option bytes.
Hypothesis inflate_deflate : forall p, inflate (deflate p) = Some p.
Variable gen : Z -> Z -> doc.
(* what generate() returns can be carried by the format, and always has the
   same shape (the Runtime struct with the same sections filled in) *)
Hypothesis gen_wf : forall i t, doc_wf (gen i t).
Hypothesis gen_schema : forall i t j u, skeleton_doc (gen i t) = skeleton_doc (gen j u).
Variable n : Z.
Hypothesis Hn : 1 <= n < 2 ^ 31.

Definition G (d : doc) : Prop := exists i t, d = gen i t.

Lemma G_wf : forall d, G d -> doc_wf d.
Proof. intros d (i & t & ->). apply gen_wf. Qed.

Lemma G_dist : forall a b, G a -> G b -> map fst (flatten_doc a) = map fst (flatten_doc b) ->
  (false = true -> schema_sig a = schema_sig b) -> skeleton_doc a = skeleton_doc b.
Proof. intros a b (i & t & ->) (j & u & ->) _ _. apply gen_schema. Qed.

Lemma G_same_types : forall d g, G d -> Forall G g -> g <> [] -> same_types d g.
Proof.
  intros d g (i & t & ->) Hg Hne. destruct g as [|x g]; [congruence|].
  inversion Hg as [|y z (j & u & ->) _]; subst. unfold same_types. cbn [hd].
  apply flatten_types_same_schema. apply gen_schema.
Qed.

(* the file being written: the groups already in it and the pending group *)
Definition cur_inv (cw : scoll * writer) (gsw : list (list doc)) (g : list doc) : Prop :=
  stream_inv G n (fst cw) g /\ w_faults (snd cw) = [] /\
  wstream deflate (n - 1) (emitted (snd cw)) gsw /\ (g = [] -> snd cw = new_file /\ gsw = []).

Lemma cur_init : cur_inv (new_stream n, new_file) [] [].
Proof.
  split; [apply stream_new_inv; lia|]. split; [reflexivity|]. split; [constructor|]. intros _. split; reflexivity.
Qed.

Lemma snoc_ne : forall (A : Type) (l : list A) x, l ++ [x] <> [].
Proof. intros A [|a l] x H; discriminate H. Qed.

(* Add never fails and never leaves the collector empty *)
Lemma cur_add : forall c w gsw g d now, cur_inv (c, w) gsw g -> G d ->
  exists c' w' gsw' g', sc_add deflate c w d now = (c', w', ROk) /\ cur_inv (c', w') gsw' g' /\ g' <> [] /\
                        concat gsw' ++ g' = (concat gsw ++ g) ++ [d].
Proof.
  intros c w gsw g d now (Hs & Hf & Hw & Hemp) Hd. cbn [fst snd] in *.
  destruct (Z_lt_le_dec (glen g) n) as [Hroom|Hfull].
  - rewrite (sc_add_room deflate G n c g w d now Hs Hroom).
    destruct g as [|x g'].
    + destruct (sc_tail_empty G false G_wf G_dist n c w d now ltac:(lia) Hs Hd) as (s' & Htail & Hs').
      exists s', w, gsw, [d]. split; [exact Htail|]. split; [|split; [discriminate|rewrite app_nil_r; reflexivity]].
      split; [exact Hs'|]. split; [exact Hf|]. split; [exact Hw|]. intros E. discriminate E.
    + assert (Hne : x :: g' <> []) by discriminate.
      destruct (sc_tail_room G false G_wf G_dist n c (x :: g') w d now Hs Hne Hroom Hd ltac:(intros E; discriminate E))
        as [(s' & Htail & Hs' & _)|(r & _ & _ & Hnot)].
      * exists s', w, gsw, ((x :: g') ++ [d]). split; [exact Htail|].
        split; [|split; [apply snoc_ne|rewrite app_assoc; reflexivity]].
        split; [exact Hs'|]. split; [exact Hf|]. split; [exact Hw|]. intros E. exfalso. exact (snoc_ne _ _ _ E).
      * exfalso. apply Hnot. apply G_same_types; [exact Hd| |exact Hne].
        apply (stream_inv_D G n c). exact Hs.
  - destruct (sc_add_full deflate G false G_wf G_dist n c g w d now ltac:(lia) Hs Hfull Hf Hd) as (out & s' & Hadd & Hout & Hs').
    exists s', (w_push w out), (gsw ++ [g]), [d]. split; [exact Hadd|].
    split; [|split; [discriminate|rewrite concat_app; cbn [concat]; rewrite app_nil_r; reflexivity]].
    split; [exact Hs'|]. split; [reflexivity|]. split; [|intros E; discriminate E].
    cbn [fst snd]. rewrite emitted_push. apply wstream_app; [exact Hw|exact Hout].
Qed.

(* the files closed so far with the groups they hold, the current file, and the
   accounting of every generated sample *)
Definition rt_inv (s : rstate) (ts : list Z) : Prop :=
  r_max s = n /\ r_id s = Z.of_nat (length ts) /\
  (r_res s = None \/ r_res s = Some RDone) /\
  exists (fs : list (list (list doc))) gsw g,
    Forall2 (fun w gs => wstream deflate (n - 1) (emitted w) gs /\ concat gs <> []) (r_closed s) fs /\
    cur_inv (r_cur s) gsw g /\
    concat (map (fun gs => concat gs) fs) ++ concat gsw ++ g = gens gen 0 ts /\
    (r_res s = Some RDone -> g = []).

Lemma Forall2_snoc : forall (A B : Type) (R : A -> B -> Prop) l1 l2 a b,
  Forall2 R l1 l2 -> R a b -> Forall2 R (l1 ++ [a]) (l2 ++ [b]).
Proof. intros A B R l1 l2 a b H Hab. apply Forall2_app; [exact H|constructor; [exact Hab|constructor]]. Qed.

(* flusher(): nothing pending: nothing happens; otherwise the pending group goes
   to the file, the file is closed and a fresh one is opened *)
Lemma flusher_inv : forall s ts, rt_inv s ts -> r_res s = None ->
  exists s', r_flusher deflate s = (s', true) /\ r_res s' = None /\ r_id s' = r_id s /\ r_max s' = r_max s /\
    exists (fs : list (list (list doc))),
      Forall2 (fun w gs => wstream deflate (n - 1) (emitted w) gs /\ concat gs <> []) (r_closed s') fs /\
      cur_inv (r_cur s') [] [] /\
      concat (map (fun gs => concat gs) fs) = gens gen 0 ts.
Proof.
  intros s ts (Hmax & Hid & _ & fs & gsw & g & Hfs & Hcur & Hacc & _) Hres.
  unfold r_flusher. destruct (r_cur s) as [c w] eqn:Ecur.
  pose proof Hcur as (Hs & Hf & Hw & Hemp). cbn [fst snd] in Hs, Hf, Hw, Hemp.
  rewrite (sc_info_inv G false G_wf G_dist n c g Hs).
  destruct g as [|x g'].
  - change (glen []) with 0. cbn [Z.eqb]. exists s. split; [reflexivity|]. split; [exact Hres|]. split; [reflexivity|].
    split; [reflexivity|]. exists fs. split; [exact Hfs|]. destruct (Hemp eq_refl) as [Hw0 Hg0]. subst gsw.
    split; [rewrite Ecur; exact Hcur|]. cbn [concat app] in Hacc. rewrite app_nil_r in Hacc. exact Hacc.
  - assert (Hne : x :: g' <> []) by discriminate.
    pose proof (glen_pos _ Hne) as Hpos. destruct (glen (x :: g') =? 0) eqn:E0; [apply Z.eqb_eq in E0; lia|].
    destruct (sc_flush_inv deflate G false G_wf G_dist n c (x :: g') w ltac:(lia) Hs Hne Hf) as (out & Hfl & Hout & _).
    rewrite Hfl, Hmax. eexists. split; [reflexivity|]. cbn [r_res r_id r_max r_closed r_cur].
    split; [exact Hres|]. split; [reflexivity|]. split; [reflexivity|].
    exists (fs ++ [gsw ++ [x :: g']]). split; [|split; [apply cur_init|]].
    + apply Forall2_snoc; [exact Hfs|]. split; [rewrite emitted_push; apply wstream_app; assumption|].
      rewrite concat_app. cbn [concat]. rewrite app_nil_r. intros E. apply app_eq_nil in E. destruct E as [_ E]. discriminate E.
    + rewrite map_app, concat_app. cbn [map concat]. rewrite app_nil_r, concat_app. cbn [concat]. rewrite app_nil_r.
      exact Hacc.
Qed.

Lemma rt_step : forall s ts e s', rt_inv s ts -> r_step deflate gen s e = Some s' ->
  rt_inv s' (ts ++ collect_times [e]).
Proof.
  intros s ts e s' Hinv Hstep. unfold r_step in Hstep.
  destruct (r_res s) as [r|] eqn:Hres; [discriminate Hstep|].
  destruct e as [now| |]; cbn [collect_times].
  - (* collect *)
    destruct Hinv as (Hmax & Hid & _ & fs & gsw & g & Hfs & Hcur & Hacc & _).
    destruct (r_cur s) as [c w] eqn:Ecur.
    destruct (cur_add c w gsw g (gen (r_id s) now) now Hcur ltac:(eexists; eexists; reflexivity))
      as (c' & w' & gsw' & g' & Hadd & Hcur' & Hne & Hcont).
    rewrite Hadd in Hstep. injection Hstep as <-.
    split; [exact Hmax|]. split; [cbn [r_id]; rewrite app_length; cbn [length]; lia|]. split; [left; reflexivity|].
    exists fs, gsw', g'. cbn [r_closed r_cur r_res]. split; [exact Hfs|]. split; [exact Hcur'|].
    split; [|intros E; discriminate E].
    rewrite gens_snoc, <- Hacc, Hcont, Hid, Z.add_0_l, <- !app_assoc. reflexivity.
  - (* flush timer *)
    destruct (flusher_inv s ts Hinv Hres) as (s1 & Hfl & Hres1 & Hid1 & Hmax1 & fs' & Hfs' & Hcur' & Hacc').
    rewrite Hfl in Hstep. injection Hstep as <-. rewrite app_nil_r.
    destruct Hinv as (Hmax & Hid & _).
    split; [congruence|]. split; [congruence|]. split; [left; exact Hres1|].
    exists fs', [], []. split; [exact Hfs'|]. split; [exact Hcur'|].
    split; [|intros _; reflexivity]. cbn [concat app]. rewrite app_nil_r. exact Hacc'.
  - (* cancellation *)
    destruct (flusher_inv s ts Hinv Hres) as (s1 & Hfl & Hres1 & Hid1 & Hmax1 & fs' & Hfs' & Hcur' & Hacc').
    rewrite Hfl in Hstep. injection Hstep as <-. rewrite app_nil_r.
    destruct Hinv as (Hmax & Hid & _). unfold rt_inv, r_finish. cbn [r_max r_id r_res r_closed r_cur].
    split; [congruence|]. split; [congruence|]. split; [right; reflexivity|].
    exists fs', [], []. split; [exact Hfs'|]. split; [exact Hcur'|].
    split; [|intros _; reflexivity]. cbn [concat app]. rewrite app_nil_r. exact Hacc'.
Qed.

Lemma rt_run : forall evs s ts s', rt_inv s ts -> r_run deflate gen s evs = Some s' ->
  rt_inv s' (ts ++ collect_times evs).
Proof.
  induction evs as [|e evs IH]; intros s ts s' Hinv Hrun; cbn [r_run] in Hrun.
  - injection Hrun as <-. cbn [collect_times]. rewrite app_nil_r. exact Hinv.
  - destruct (r_step deflate gen s e) as [s1|] eqn:Estep; [|discriminate Hrun].
    pose proof (rt_step _ _ _ _ Hinv Estep) as Hinv1.
    pose proof (IH _ _ _ Hinv1 Hrun) as Hinv'. rewrite <- app_assoc, <- collect_times_app in Hinv'. exact Hinv'.
Qed.

End Runtime.

(* ------------------------------------------------------------------ the files of a run *)
Lemma Forall2_left : forall (A B : Type) (P : B -> Prop) (R : A -> B -> Prop) l1 l2,
  Forall2 R l1 l2 -> (forall a b, R a b -> P b) -> Forall P l2.
Proof. intros A B P R l1 l2 H HP. induction H as [|a b l1 l2 Hab H IH]; constructor; [exact (HP a b Hab)|exact IH]. Qed.

Lemma Forall2_map_r : forall (A B C : Type) (R : A -> B -> Prop) (R' : A -> C -> Prop) (f : B -> C) l1 l2,
  Forall2 R l1 l2 -> (forall a b, R a b -> R' a (f b)) -> Forall2 R' l1 (map f l2).
Proof.
  intros A B C R R' f l1 l2 H HR. induction H as [|a b l1 l2 Hab H IH]; [constructor|].
  cbn [map]. constructor; [exact (HR a b Hab)|exact IH].
Qed.

Lemma sample_ids_gens : forall (gen : Z -> Z -> doc),
  (forall i t, 0 <= i < 2 ^ 63 -> sample_id (strip_doc (gen i t)) = Some i) ->
  forall ts i, 0 <= i -> i + Z.of_nat (length ts) <= 2 ^ 63 ->
  map (fun d => sample_id (strip_doc d)) (gens gen i ts) = map Some (zseq i (length ts)).
Proof.
  intros gen Hid. induction ts as [|t ts IH]; intros i Hi Hb; [reflexivity|].
  cbn [gens map zseq]. change (length (t :: ts)) with (S (length ts)) in Hb |- *. cbn [zseq map].
  rewrite Hid by lia. rewrite IH by lia. reflexivity.
Qed.

Lemma sample_ids_gens0 : forall (gen : Z -> Z -> doc),
  (forall i t, 0 <= i < 2 ^ 63 -> sample_id (strip_doc (gen i t)) = Some i) ->
  forall ts, Z.of_nat (length ts) <= 2 ^ 63 ->
  map (fun d => sample_id (strip_doc d)) (gens gen 0 ts) = map Some (zseq 0 (length ts)).
Proof. intros gen H ts Hb. apply (sample_ids_gens gen H ts 0); [apply Z.le_refl|exact Hb]. Qed.

Section RuntimeFiles.
Variable deflate : bytes -> bytes.
Variable inflate : bytes -> option bytes.
Hypothesis inflate_deflate : forall p, inflate (deflate p) = Some p.
Variable gen : Z -> Z -> doc.
Hypothesis gen_wf : forall i t, doc_wf (gen i t).
Hypothesis gen_schema : forall i t j u, skeleton_doc (gen i t) = skeleton_doc (gen j u).

(* a file: valid FTDC that decodes to the numeric projection of [docs], in
   chunks of at most n samples *)
Definition file_holds (n : Z) (w : writer) (docs : list doc) : Prop :=
  exists dec, decode_ftdc inflate None (emitted w) = Some dec /\ dc_docs dec = map strip_doc docs /\
              forallb (fun z => z <=? n) (dc_sizes dec) = true.

Lemma wstream_file : forall n w gs, 1 <= n < 2 ^ 31 -> wstream deflate (n - 1) (emitted w) gs ->
  file_holds n w (concat gs).
Proof.
  intros n w gs Hn Hw.
  destruct (decode_wstream deflate inflate inflate_deflate (n - 1) _ _ ltac:(lia) Hw) as [metas Hdec].
  eexists. split; [exact Hdec|]. cbn [dc_docs dc_sizes]. split; [reflexivity|].
  pose proof (glen_bound (n - 1) gs (wstream_lens deflate _ (emitted w) _ Hw)) as Hb.
  replace (n - 1 + 1) with n in Hb by lia. exact Hb.
Qed.

Theorem runtime_files : forall o evs s,
  rt_valid o = true -> ro_samples o < 2 ^ 31 ->
  r_run deflate gen (r_init o) evs = Some s ->
  let n := ro_samples o in
  let ts := collect_times evs in
  r_id s = Z.of_nat (length ts) /\ (r_res s = None \/ r_res s = Some RDone) /\
  exists (fdocs : list (list doc)) (pending : list doc),
    Forall2 (file_holds n) (r_files s) fdocs /\
    concat fdocs ++ pending = gens gen 0 ts /\
    Forall (fun docs : list doc => docs <> []) (removelast fdocs) /\
    (r_res s = Some RDone -> pending = [] /\ last fdocs [] = []).
Proof.
  intros o evs s Hvalid Hmax Hrun n ts.
  assert (Hn : 1 <= n < 2 ^ 31).
  { subst n. unfold rt_valid in Hvalid. repeat (apply andb_true_iff in Hvalid; destruct Hvalid as [Hvalid ?]).
    match goal with H : negb (ro_samples o <? 10) = true |- _ => apply negb_true_iff, Z.ltb_ge in H end. lia. }
  unfold r_init in Hrun. rewrite Hvalid in Hrun. fold n in Hrun.
  assert (Hinit : rt_inv deflate gen n (mkR n 0 [] (new_stream n, new_file) None) []).
  { split; [reflexivity|]. split; [reflexivity|]. split; [left; reflexivity|].
    exists [], [], []. split; [constructor|]. split; [apply cur_init; assumption|]. split; [reflexivity|].
    intros E. discriminate E. }
  pose proof (rt_run deflate gen gen_wf gen_schema n Hn evs _ [] s Hinit Hrun) as Hinv. cbn [app] in Hinv. fold ts in Hinv.
  destruct Hinv as (_ & Hid & Hres & fs & gsw & g & Hfs & Hcur & Hacc & Hdone).
  split; [exact Hid|]. split; [exact Hres|].
  exists (map (fun gs => concat gs) fs ++ [concat gsw]), g.
  assert (Hfiles : r_files s = r_closed s ++ [snd (r_cur s)]).
  { unfold r_files. destruct Hres as [-> | ->]; reflexivity. }
  destruct Hcur as (_ & _ & Hw & Hemp).
  split; [|split; [|split]].
  - rewrite Hfiles. apply Forall2_app.
    + apply (Forall2_map_r _ _ _ _ _ _ _ _ Hfs). intros w gs [Hwg _]. apply wstream_file; assumption.
    + constructor; [apply wstream_file; assumption|constructor].
  - rewrite concat_app. cbn [concat]. rewrite app_nil_r, <- app_assoc. exact Hacc.
  - rewrite removelast_last. apply Forall_map.
    apply (Forall2_left _ _ _ _ _ _ Hfs). intros w gs [_ Hne]. exact Hne.
  - intros Hd. specialize (Hdone Hd). subst g. split; [reflexivity|]. rewrite last_last.
    destruct (Hemp eq_refl) as [_ ->]. reflexivity.
Qed.

(* an option set that Validate refuses: an error and no file *)
Theorem runtime_invalid : forall o evs s,
  rt_valid o = false -> r_run deflate gen (r_init o) evs = Some s ->
  evs = [] /\ r_res s = Some (RErr RInvalid) /\ r_files s = [].
Proof.
  intros o evs s Hv Hrun. unfold r_init in Hrun. rewrite Hv in Hrun.
  destruct evs as [|e evs]; cbn [r_run] in Hrun.
  - injection Hrun as <-. repeat split.
  - unfold r_step in Hrun. cbn [r_res] in Hrun. discriminate Hrun.
Qed.

(* a flush with nothing pending does nothing: no file is created *)
Theorem runtime_idle_flush : forall s,
  snd (in_info (sc_inner (fst (r_cur s)))) = 0 -> r_flusher deflate s = (s, true).
Proof.
  intros s H. unfold r_flusher. destruct (r_cur s) as [c w]. cbn [fst] in H. rewrite H. reflexivity.
Qed.

End RuntimeFiles.

(* ================================================================== D17: the timer arm returns early *)
(* three lines that all parse; the timer fires after the first document: a nil
   error and an output that decodes to one sample *)
Definition wit_doc (v : Z) : doc := [([97]%N, VInt64 v)].
Definition wit_parse (l : bytes) : pres := match l with [b] => PDoc (wit_doc (Z.of_N b)) | _ => PBad end.
Definition wit_lines : list bytes := [[49]%N; [50]%N; [51]%N].

Theorem json_timer_refuted :
  let items := script wit_parse false wit_lines ScanEof in
  let evs := [EvDoc 0; EvTimer] in
  (exists docs, Forall2 (fun l d => wit_parse l = PDoc d) wit_lines docs /\ length docs = 3%nat) /\
  j_early deflate_flag false true (j_init true 5 items) evs = false /\
  exists s out, j_run deflate_flag (j_init true 5 items) evs = Some s /\ j_res s = Some (JOk out) /\
    option_map dc_docs (decode_ftdc inflate_flag None out) = Some [wit_doc 49].
Proof.
  cbv zeta. split; [|split].
  - exists [wit_doc 49; wit_doc 50; wit_doc 51]. split; [|reflexivity].
    constructor; [reflexivity|]. constructor; [reflexivity|]. constructor; [reflexivity|constructor].
  - vm_compute. reflexivity.
  - eexists. eexists. split; [vm_compute; reflexivity|]. split; [vm_compute; reflexivity|]. vm_compute. reflexivity.
Qed.

(* ================================================================== statements over the raw input *)
Lemma scan_raw_spec : forall limit rerr raws ts e, scan_raw limit rerr raws = (ts, e) ->
  match e with
  | ScanTooLong => exists pre l post, raws = pre ++ l :: post /\ ts = map drop_cr pre /\
                     Forall (fun x => (N.of_nat (length x) < limit)%N) pre /\ (limit <= N.of_nat (length l))%N
  | _ => ts = map drop_cr raws /\ Forall (fun x => (N.of_nat (length x) < limit)%N) raws /\
         (e = ScanReadErr <-> rerr = true)
  end.
Proof.
  intros limit rerr. induction raws as [|l raws IH]; intros ts e H; cbn [scan_raw] in H.
  - injection H as <- <-. destruct rerr; (split; [reflexivity|]; split; [constructor|]; split; congruence).
  - destruct (limit <=? N.of_nat (length l))%N eqn:El.
    + injection H as <- <-. apply N.leb_le in El. exists [], l, raws. split; [reflexivity|]. split; [reflexivity|].
      split; [constructor|exact El].
    + apply N.leb_gt in El. destruct (scan_raw limit rerr raws) as [ts' e'] eqn:Er. injection H as <- <-.
      specialize (IH ts' e' eq_refl). destruct e'.
      * destruct IH as (-> & HF & Hr). split; [reflexivity|]. split; [constructor; assumption|exact Hr].
      * destruct IH as (pre & x & post & -> & -> & HF & Hx). exists (l :: pre), x, post.
        split; [reflexivity|]. split; [reflexivity|]. split; [constructor; assumption|exact Hx].
      * destruct IH as (-> & HF & Hr). split; [reflexivity|]. split; [constructor; assumption|exact Hr].
Qed.

Section JsonInput.
Variable deflate : bytes -> bytes.
Variable inflate : bytes -> option bytes.
Hypothesis inflate_deflate : forall p, inflate (deflate p) = Some p.

Theorem json_total_input : forall parse limit inp rerr ls e n evs s r,
  1 <= n < 2 ^ 31 ->
  scan limit inp rerr = (ls, e) -> docs_ok KDyn (parsed parse ls) ->
  let init := j_init true n (source parse false limit inp rerr) in
  j_run deflate init evs = Some s -> j_res s = Some r -> j_early deflate true true init evs = false ->
  (e = ScanEof /\ Forall2 (fun l d => parse l = PDoc d) ls (parsed parse ls) /\
   exists out dec, r = JOk out /\ decode_ftdc inflate None out = Some dec /\
                   dc_docs dec = map strip_doc (parsed parse ls) /\ forallb (fun z => z <=? n) (dc_sizes dec) = true) \/
  (input_bad parse ls e /\ exists e', r = JErr e').
Proof.
  intros parse limit inp rerr ls e n evs s r Hn Hscan Hok. unfold source. rewrite Hscan.
  apply (json_total deflate inflate inflate_deflate parse); assumption.
Qed.

Theorem json_refusal_input : forall parse limit inp rerr ls e n evs s r,
  1 <= n < 2 ^ 31 ->
  scan limit inp rerr = (ls, e) ->
  (forall d, In d (parsed parse ls) -> doc_wf d) -> distinguishable KDyn (fun d => In d (parsed parse ls)) ->
  let init := j_init true n (source parse false limit inp rerr) in
  j_run deflate init evs = Some s -> j_res s = Some r -> j_early deflate true true init evs = false ->
  (e = ScanEof /\ exists docs, Forall2 (fun l d => parse l = PDoc d) ls docs /\
     ((exists out dec, r = JOk out /\ decode_ftdc inflate None out = Some dec /\
                       dc_docs dec = map strip_doc docs /\ forallb (fun z => z <=? n) (dc_sizes dec) = true) \/
      (exists a, a <> ROk /\ r = JErr (JAdd a)))) \/
  (input_bad parse ls e /\ exists e', r = JErr e').
Proof.
  intros parse limit inp rerr ls e n evs s r Hn Hscan Hwf Hdist. unfold source. rewrite Hscan.
  assert (Hin : forall d, In (IDoc d) (script parse false ls e) -> In d (parsed parse ls)).
  { clear. induction ls as [|l ls IH]; intros d Hd; cbn [script] in Hd.
    - destruct e; cbn [In] in Hd; try contradiction; destruct Hd as [Hd|[]]; discriminate Hd.
    - unfold parsed. cbn [flat_map]. destruct (parse l) as [x|].
      + destruct Hd as [Hd|Hd]; [injection Hd as ->; left; reflexivity|]. apply in_or_app. right. apply IH. exact Hd.
      + destruct Hd as [Hd|[]]. discriminate Hd. }
  apply (json_complete deflate inflate inflate_deflate parse); try assumption.
  - intros d Hd. apply Hwf, Hin, Hd.
  - intros a b Ha Hb. apply Hdist; apply Hin; assumption.
Qed.

Theorem json_never_short_input : forall parse limit inp rerr ls e n evs s out,
  scan limit inp rerr = (ls, e) ->
  let init := j_init true n (source parse false limit inp rerr) in
  j_run deflate init evs = Some s -> j_res s = Some (JOk out) -> j_early deflate true false init evs = false ->
  e = ScanEof /\ exists docs c, Forall2 (fun l d => parse l = PDoc d) ls docs /\
    fed (dy_new n) docs c /\ JOk out = j_flush deflate c.
Proof.
  intros parse limit inp rerr ls e n evs s out Hscan. unfold source. rewrite Hscan.
  apply (json_never_short deflate parse).
Qed.

Theorem json_live_input : forall parse limit inp rerr n,
  let init := j_init true n (source parse false limit inp rerr) in
  exists evs s, j_run deflate init evs = Some s /\ j_res s <> None /\ j_early deflate true true init evs = false /\
                (length evs <= S (length (source parse false limit inp rerr)))%nat.
Proof. intros parse limit inp rerr n. apply j_calm_runs. Qed.

End JsonInput.

(* ================================================================== non-vacuity *)
Definition gen_ex (i now : Z) : doc := [(k_sample_id, VInt64 (wrap64 i)); ([116]%N, VDateTime 0)].

Lemma wrap64_range : forall i, in_i64 (wrap64 i) = true.
Proof.
  intros i. unfold in_i64, wrap64. pose proof (Z.mod_pos_bound (i + 2 ^ 63) (2 ^ 64) ltac:(lia)) as H.
  apply andb_true_iff. split; [apply Z.leb_le|apply Z.ltb_lt]; lia.
Qed.

Lemma wrap64_id : forall i, 0 <= i < 2 ^ 63 -> wrap64 i = i.
Proof. intros i Hi. unfold wrap64. rewrite Z.mod_small by lia. lia. Qed.

Lemma runtime_example :
  (forall i t, doc_wf (gen_ex i t)) /\
  (forall i t j u, skeleton_doc (gen_ex i t) = skeleton_doc (gen_ex j u)) /\
  (forall i t, 0 <= i < 2 ^ 63 -> sample_id (strip_doc (gen_ex i t)) = Some i) /\
  rt_valid (mkRopts (10 * ms) (2 * ms) 10 false true true false 0) = true /\
  match x_runtime (mkRopts (10 * ms) (2 * ms) 10 false true true false 0)
          (repeat (RvCollect 0) 12 ++ [RvFlush; RvFlush; RvCollect 0; RvCancel]) with
  | Some ob => rb_res ob = Some RDone /\
               rb_files ob = [Some (map Some (zseq 0 12), [10; 2]); Some ([Some 12], [1]); Some ([], [])]
  | None => False
  end.
Proof.
  split; [|split; [|split; [|split]]].
  - intros i t. unfold gen_ex. split; [cbn [doc_ok value_ok]; rewrite wrap64_range; reflexivity|]. split.
    + cbn [doc_leaves_ok leaves_ok]. rewrite wrap64_range. reflexivity.
    + split; [unfold small; vm_compute; reflexivity|]. split; [reflexivity|vm_compute; reflexivity].
  - intros i t j u. reflexivity.
  - intros i t Hi. unfold gen_ex. cbn. rewrite wrap64_id by exact Hi. reflexivity.
  - vm_compute. reflexivity.
  - vm_compute. split; reflexivity.
Qed.

Lemma json_example :
  scan 8 [49; 13; 10; 50; 10; 10; 51]%N false = ([[49]; [50]; []; [51]]%N, ScanEof) /\
  scan 8 [49; 10; 50; 50; 50; 50; 50; 50; 50; 50; 10; 51]%N false = ([[49]]%N, ScanTooLong) /\
  docs_ok KDyn (parsed wit_parse wit_lines) /\
  x_json_calm true 2 (script wit_parse false wit_lines ScanEof) = JObsOk [wit_doc 49; wit_doc 50; wit_doc 51] [2; 1] /\
  x_json_calm true 2 (script wit_parse false [[49]; []; [51]]%N ScanEof) = JObsErr (JSrc SParse).
Proof.
  split; [|split; [|split; [|split]]].
  - vm_compute. reflexivity.
  - vm_compute. reflexivity.
  - split; [|split].
    + repeat (constructor; [ex_doc_wf|]). constructor.
    + intros a b Ha Hb. cbn [parsed wit_lines flat_map wit_parse app In] in Ha, Hb. ex_cases; ex_dist.
    + intros a b Ha Hb Hs. cbn [parsed wit_lines flat_map wit_parse app In] in Ha, Hb. ex_cases; reflexivity.
  - vm_compute. reflexivity.
  - vm_compute. reflexivity.
Qed.

(* why the reader's failure must not be a wrapped io.EOF: the select loop's
   `errors.Cause(err) == io.EOF` takes it for the end of the input *)
Theorem json_wrapped_eof_refuted :
  let items := script wit_parse true [[49]%N] ScanReadErr in
  items = [IDoc (wit_doc 49); IErr (SRead true)] /\
  x_json_run true 5 items [EvDoc 0; EvErr] = JObsOk [wit_doc 49] [1].
Proof. cbv zeta. split; vm_compute; reflexivity. Qed.
