(* C17, batch sizes n <= 0 of the six uncompressed collectors.
   uncompressedCollector.Add refuses with "overfull" when len(samples) >= batchSize,
   which is always the case for batchSize <= 0; the streaming wrappers flush when
   count >= maxSamples (always, count stays 0) but FlushCollector returns at once
   for an empty collector.  Hence for all six kinds: nothing is ever accepted,
   the writer is never called, Resolve never has anything.  The only thing that
   moves is the recorded field count (and, for the schema-aware kinds, the
   recorded signature), which decides between the two refusals. *)
From Coq Require Import ZArith NArith List Bool Lia Arith.
From FV.Model Require Import Bytes Bson Metrics Codec Collector CollectorOk RoundTrip Instance UncOk.
Import ListNotations.
Open Scope Z_scope.

(* the answer of Add with recorded field count [mc] (0 = none recorded) *)
Definition np_res (mc : Z) (d : doc) : ares :=
  if negb (mc =? 0) && negb (Z.of_nat (length d) =? mc) then RCount else RFull.
(* the field count recorded afterwards *)
Definition np_mc (mc : Z) (d : doc) : Z := if mc =? 0 then Z.of_nat (length d) else mc.

(* the answers of a sequence of Adds *)
Fixpoint np_answers (mc : Z) (docs : list doc) : list ares :=
  match docs with
  | [] => []
  | d :: r => np_res mc d :: np_answers (np_mc mc d) r
  end.

(* recorded field count of a collector of these kinds *)
Definition cmc (c : coll) : Z := match coll_ucoll c with Some u => uc_mcount u | None => 0 end.

(* an observation that shows nothing accepted, nothing pending, nothing failed *)
Definition obs_nothing (b : obs) : Prop :=
  match b with
  | BAdd r => r = RFull \/ r = RCount
  | BResolve o => o = None
  | BFlush ok => ok = true
  | BInfo _ s => s = 0
  | BReset | BSetMeta => True
  end.

(* ------------------------------------------------------------------ the invariant *)
Definition np_u (n : Z) (u : ucoll) : Prop := uc_batch u = n /\ uc_samples u = [].
Definition np_s (n : Z) (s : scoll) : Prop :=
  sc_max s = n /\ sc_count s = 0 /\ match sc_inner s with IU u => np_u n u | IB _ => False end.
Definition np_c (n : Z) (c : coll) : Prop :=
  match c with CUnc u => np_u n u | CStream s => np_s n s | CSDyn x => np_s n (sd_s x) | _ => False end.

Lemma np_new : forall k n, unc_kind k = true -> np_c n (new_coll k n).
Proof. intros k n Hk. destruct k; try discriminate Hk; cbn; repeat split. Qed.

Lemma np_pend : forall n c, np_c n c -> pend c = [] /\ exists u, coll_ucoll c = Some u /\ np_u n u.
Proof.
  intros n c H. destruct c as [b|b|x|s|x|u]; cbn [np_c] in H; try contradiction; unfold pend; cbn [coll_ucoll].
  - destruct H as (_ & _ & H). destruct (sc_inner s) as [b|u]; [contradiction|]. cbn [inner_ucoll].
    split; [apply H|exists u; split; [reflexivity|exact H]].
  - destruct H as (_ & _ & H). destruct (sc_inner (sd_s x)) as [b|u]; [contradiction|]. cbn [inner_ucoll].
    split; [apply H|exists u; split; [reflexivity|exact H]].
  - split; [apply H|exists u; split; [reflexivity|exact H]].
Qed.

(* ------------------------------------------------------------------ uncompressedCollector *)
Lemma uc_add_np : forall n u d, n <= 0 -> np_u n u ->
  uc_add u d = (mkUcoll (uc_json u) (uc_batch u) (np_mc (uc_mcount u) d) (uc_meta u) [], np_res (uc_mcount u) d).
Proof.
  intros n u d Hn [Hb Hs]. unfold uc_add, np_res, np_mc. rewrite Hs, Hb. cbn [length Z.of_nat].
  assert (E : n <=? 0 = true) by (apply Z.leb_le; exact Hn). rewrite E.
  destruct (uc_mcount u =? 0) eqn:Em; cbn [negb andb].
  - rewrite Z.eqb_refl. reflexivity.
  - destruct (Z.of_nat (length d) =? uc_mcount u); reflexivity.
Qed.

Lemma np_res_nothing : forall mc d, np_res mc d = RFull \/ np_res mc d = RCount.
Proof. intros mc d. unfold np_res. destruct (negb (mc =? 0) && negb (Z.of_nat (length d) =? mc)); [right|left]; reflexivity. Qed.

Lemma np_res_uc : forall n u d, n <= 0 -> np_u n u -> uc_add_res u d = np_res (uc_mcount u) d.
Proof.
  intros n u d Hn [Hb Hs]. unfold uc_add_res, np_res. rewrite Hs, Hb. cbn [length Z.of_nat].
  assert (E : n <=? 0 = true) by (apply Z.leb_le; exact Hn). rewrite E. reflexivity.
Qed.

Section Kinds.
Variable deflate : bytes -> bytes.

(* ------------------------------------------------------------------ streamingCollector *)
Lemma sc_flush_np : forall n s w, np_s n s -> sc_flush deflate s w = (s, w, true).
Proof.
  intros n s w (_ & _ & H). unfold sc_flush, flush_with. destruct (sc_inner s) as [b|u]; [contradiction|].
  cbn [in_info snd]. destruct H as [_ Hs]. rewrite Hs. reflexivity.
Qed.

Lemma sc_add_np : forall n s w d now, n <= 0 -> np_s n s ->
  exists s', sc_add deflate s w d now = (s', w, np_res (cmc (CStream s)) d) /\ np_s n s' /\
             cmc (CStream s') = np_mc (cmc (CStream s)) d /\ cmeta (CStream s') = cmeta (CStream s).
Proof.
  intros n s w d now Hn Hs. pose proof Hs as (Hmax & Hcnt & Hin). unfold sc_add.
  assert (E : sc_max s <=? sc_count s = true) by (apply Z.leb_le; lia). rewrite E.
  rewrite (sc_flush_np n s w Hs). cbn [negb]. unfold cmc, cmeta. cbn [coll_ucoll].
  destruct (sc_inner s) as [b|u] eqn:Ei; [contradiction|]. cbn [in_add inner_ucoll].
  rewrite (uc_add_np n u d Hn Hin).
  exists (mkScoll (sc_max s) (sc_count s)
            (IU (mkUcoll (uc_json u) (uc_batch u) (np_mc (uc_mcount u) d) (uc_meta u) []))).
  split.
  - destruct (np_res_nothing (uc_mcount u) d) as [-> | ->]; reflexivity.
  - cbn [sc_inner inner_ucoll uc_mcount uc_meta]. split; [|split; reflexivity].
    split; [exact Hmax|]. split; [exact Hcnt|]. cbn [sc_inner]. split; [apply Hin|reflexivity].
Qed.

Lemma sd_add_np : forall n x w d now, n <= 0 -> np_s n (sd_s x) ->
  exists x', sd_add deflate x w d now = (x', w, np_res (cmc (CSDyn x)) d) /\ np_s n (sd_s x') /\
             cmc (CSDyn x') = np_mc (cmc (CSDyn x)) d /\ cmeta (CSDyn x') = cmeta (CSDyn x).
Proof.
  intros n x w d now Hn Hs. pose proof Hs as (_ & Hcnt & _). unfold sd_add.
  destruct (schema_sig d) as [sig num].
  assert (E0 : 0 <? sc_count (sd_s x) = false) by (apply Z.ltb_ge; lia).
  destruct (match sd_hash x with
            | None => true
            | Some h => negb (sd_mcount x =? num) || negb (bytes_eqb h sig)
            end).
  - rewrite E0. cbn [negb sd_s sd_hash sd_mcount].
    destruct (sc_add_np n (sd_s x) w d now Hn Hs) as (s' & Hadd & Hs' & Hmc & Hme). rewrite Hadd.
    eexists. split; [reflexivity|]. cbn [sd_s]. split; [exact Hs'|split; [exact Hmc|exact Hme]].
  - cbn [negb].
    destruct (sc_add_np n (sd_s x) w d now Hn Hs) as (s' & Hadd & Hs' & Hmc & Hme). rewrite Hadd.
    eexists. split; [reflexivity|]. cbn [sd_s]. split; [exact Hs'|split; [exact Hmc|exact Hme]].
Qed.

(* ------------------------------------------------------------------ every operation *)
Lemma c_add_np : forall n c w d now, n <= 0 -> np_c n c ->
  exists c', c_add deflate c w d now = (c', w, np_res (cmc c) d) /\ np_c n c' /\
             cmc c' = np_mc (cmc c) d /\ cmeta c' = cmeta c.
Proof.
  intros n c w d now Hn H. destruct c as [b|b|x|s|x|u]; cbn [np_c] in H; try contradiction; cbn [c_add].
  - destruct (sc_add_np n s w d now Hn H) as (s' & Hadd & Hs' & Hmc & Hme). rewrite Hadd.
    exists (CStream s'). split; [reflexivity|]. split; [exact Hs'|split; assumption].
  - destruct (sd_add_np n x w d now Hn H) as (x' & Hadd & Hs' & Hmc & Hme). rewrite Hadd.
    exists (CSDyn x'). split; [reflexivity|]. split; [exact Hs'|split; assumption].
  - rewrite (uc_add_np n u d Hn H). eexists. split; [reflexivity|]. unfold cmc, cmeta. cbn [coll_ucoll np_c uc_mcount uc_meta].
    split; [|split; reflexivity]. split; [apply H|reflexivity].
Qed.

Lemma c_info_np : forall n c, np_c n c -> c_info c = (cmc c, 0).
Proof.
  intros n c H. destruct (np_pend n c H) as [_ (u & Hu & _ & Hs)]. unfold cmc. rewrite Hu.
  destruct c as [b|b|x|s|x|v]; cbn [np_c] in H; try contradiction; cbn [c_info coll_ucoll] in *.
  - destruct (sc_inner s) as [b|v]; [discriminate Hu|]. injection Hu as ->. cbn [in_info]. rewrite Hs. reflexivity.
  - destruct (sc_inner (sd_s x)) as [b|v]; [discriminate Hu|]. injection Hu as ->. cbn [in_info]. rewrite Hs. reflexivity.
  - injection Hu as ->. rewrite Hs. reflexivity.
Qed.

Lemma c_resolve_np : forall n c, np_c n c -> c_resolve deflate c = None.
Proof.
  intros n c H. destruct c as [b|b|x|s|x|v]; cbn [np_c] in H; try contradiction; cbn [c_resolve].
  - destruct H as (_ & _ & H). destruct (sc_inner s) as [b|v]; [contradiction|]. cbn [in_resolve]. unfold uc_resolve.
    destruct H as [_ ->]. reflexivity.
  - destruct H as (_ & _ & H). destruct (sc_inner (sd_s x)) as [b|v]; [contradiction|]. cbn [in_resolve]. unfold uc_resolve.
    destruct H as [_ ->]. reflexivity.
  - unfold uc_resolve. destruct H as [_ ->]. reflexivity.
Qed.

Lemma np_u_reset : forall n u, np_u n u -> np_u n (uc_reset u).
Proof. intros n u [Hb _]. split; [exact Hb|reflexivity]. Qed.

Lemma np_s_reset : forall n s, np_s n s -> np_s n (sc_reset s).
Proof.
  intros n s (Hmax & _ & H). unfold sc_reset, np_s. cbn [sc_max sc_count sc_inner]. split; [exact Hmax|]. split; [reflexivity|].
  destruct (sc_inner s) as [b|u]; [contradiction|]. cbn [in_reset]. apply np_u_reset. exact H.
Qed.

Lemma c_reset_np : forall n c, np_c n c -> np_c n (c_reset c).
Proof.
  intros n c H. destruct c as [b|b|x|s|x|v]; cbn [np_c] in H; try contradiction; cbn [c_reset np_c].
  - apply np_s_reset. exact H.
  - cbn [sd_reset sd_s]. apply np_s_reset. exact H.
  - apply np_u_reset. exact H.
Qed.

Lemma c_set_meta_np : forall n c m, np_c n c -> np_c n (c_set_meta c m).
Proof.
  intros n c m H. destruct c as [b|b|x|s|x|v]; cbn [np_c] in H; try contradiction; cbn [c_set_meta np_c].
  - destruct H as (Hmax & Hcnt & H). split; [exact Hmax|]. split; [exact Hcnt|]. cbn [sc_inner].
    destruct (sc_inner s) as [b|u]; [contradiction|]. cbn [in_set_meta]. exact H.
  - destruct H as (Hmax & Hcnt & H). cbn [sd_s]. split; [exact Hmax|]. split; [exact Hcnt|]. cbn [sc_inner].
    destruct (sc_inner (sd_s x)) as [b|u]; [contradiction|]. cbn [in_set_meta]. exact H.
  - exact H.
Qed.

Lemma c_flush_np : forall n c w, np_c n c -> c_flush deflate c w = (c, w, true).
Proof.
  intros n c w H. pose proof (c_info_np n c H) as Hi.
  destruct c as [b|b|x|s|x|v]; cbn [np_c] in H; try contradiction; cbn [c_flush].
  - rewrite (sc_flush_np n s w H). reflexivity.
  - unfold sd_flush, flush_with. cbn [c_info] in Hi. rewrite Hi. reflexivity.
  - unfold flush_with. rewrite Hi. reflexivity.
Qed.

Lemma c_add_bad_np : forall n c w, n <= 0 -> np_c n c -> c_add_bad deflate c w = (c, w, RCount).
Proof.
  intros n c w Hn H. destruct c as [b|b|x|s|x|v]; cbn [np_c] in H; try contradiction; cbn [c_add_bad]; try reflexivity.
  pose proof H as (Hmax & Hcnt & _). assert (E : sc_max s <=? sc_count s = true) by (apply Z.leb_le; lia).
  rewrite E, (sc_flush_np n s w H). reflexivity.
Qed.

Lemma step_np : forall n c w o, n <= 0 -> np_c n c ->
  exists c', step deflate (c, w) o = ((c', w), snd (step deflate (c, w) o)) /\ np_c n c' /\
             obs_nothing (snd (step deflate (c, w) o)).
Proof.
  intros n c w o Hn H. destruct o as [d now| | | | |m|]; cbn [step].
  - destruct (c_add_np n c w d now Hn H) as (c' & Hadd & Hc' & _). rewrite Hadd. exists c'.
    split; [reflexivity|]. split; [exact Hc'|]. apply np_res_nothing.
  - rewrite (c_add_bad_np n c w Hn H). exists c. split; [reflexivity|]. split; [exact H|right; reflexivity].
  - exists c. split; [reflexivity|]. split; [exact H|]. apply (c_resolve_np n c H).
  - exists (c_reset c). split; [reflexivity|]. split; [apply c_reset_np; exact H|exact I].
  - rewrite (c_flush_np n c w H). exists c. split; [reflexivity|]. split; [exact H|reflexivity].
  - exists (c_set_meta c m). split; [reflexivity|]. split; [apply c_set_meta_np; exact H|exact I].
  - rewrite (c_info_np n c H). exists c. split; [reflexivity|]. split; [exact H|reflexivity].
Qed.

Lemma run_np : forall n ops c w, n <= 0 -> np_c n c ->
  snd (fst (run deflate (c, w) ops)) = w /\ np_c n (fst (fst (run deflate (c, w) ops))) /\
  Forall obs_nothing (snd (run deflate (c, w) ops)).
Proof.
  intros n ops. induction ops as [|o ops IH]; intros c w Hn H.
  - cbn [run fst snd]. split; [reflexivity|]. split; [exact H|constructor].
  - cbn [run]. destruct (step_np n c w o Hn H) as (c' & Hst & Hc' & Hob).
    destruct (step deflate (c, w) o) as [st' b]. cbn [snd] in *. injection Hst as ->.
    specialize (IH c' w Hn Hc'). destruct (run deflate (c', w) ops) as [st'' bs]. cbn [fst snd] in *.
    destruct IH as (A & B & C). split; [exact A|]. split; [exact B|]. constructor; assumption.
Qed.

(* ------------------------------------------------------------------ the statements of Props/C17.v *)
(* every history: the writer is never called, nothing is ever accepted or pending *)
Theorem unc_nonpos_run : forall k n fs ops, unc_kind k = true -> n <= 0 ->
  let res := run deflate (init_state k n fs) ops in
  snd (fst res) = mkWriter [] fs false /\
  pend (fst (fst res)) = [] /\ c_resolve deflate (fst (fst res)) = None /\ snd (c_info (fst (fst res))) = 0 /\
  Forall obs_nothing (snd res).
Proof.
  intros k n fs ops Hk Hn res. subst res. unfold init_state.
  destruct (run_np n ops (new_coll k n) (mkWriter [] fs false) Hn (np_new k n Hk)) as (A & B & C).
  split; [exact A|]. split; [apply (np_pend n _ B)|]. split; [apply (c_resolve_np n _ B)|].
  split; [rewrite (c_info_np n _ B); reflexivity|exact C].
Qed.

(* one Add in a reachable state, all six kinds *)
Theorem unc_nonpos_add : forall k n c w d now, unc_kind k = true -> n <= 0 -> reachable deflate k n (c, w) ->
  exists u, coll_ucoll c = Some u /\ uc_batch u = n /\ uc_samples u = [] /\
  uc_add_res u d = np_res (uc_mcount u) d /\
  exists c', step deflate (c, w) (OAdd d now) = ((c', w), BAdd (np_res (uc_mcount u) d)) /\
    pend c' = [] /\ cmeta c' = cmeta c /\ cmc c' = np_mc (uc_mcount u) d.
Proof.
  intros k n c w d now Hk Hn (fs & ops & E). unfold init_state in E.
  destruct (run_np n ops (new_coll k n) (mkWriter [] fs false) Hn (np_new k n Hk)) as (_ & B & _).
  rewrite E in B. cbn [fst] in B. destruct (np_pend n c B) as [_ (u & Hu & Hb & Hs)].
  exists u. split; [exact Hu|]. split; [exact Hb|]. split; [exact Hs|].
  split; [apply (np_res_uc n u d Hn); split; assumption|].
  destruct (c_add_np n c w d now Hn B) as (c' & Hadd & Hc' & Hmc & Hme).
  assert (Ec : cmc c = uc_mcount u) by (unfold cmc; rewrite Hu; reflexivity). rewrite Ec in *.
  exists c'. cbn [step]. rewrite Hadd. split; [reflexivity|]. split; [apply (np_pend n c' Hc')|]. split; assumption.
Qed.

(* all histories of Adds: the answers in closed form *)
Lemma run_adds_np : forall n docs nows c w, n <= 0 -> np_c n c -> length nows = length docs ->
  snd (run deflate (c, w) (add_ops docs nows)) = map BAdd (np_answers (cmc c) docs).
Proof.
  intros n docs. induction docs as [|d docs IH]; intros nows c w Hn H Hl.
  - reflexivity.
  - destruct nows as [|now nows]; [discriminate Hl|]. injection Hl as Hl.
    unfold add_ops. cbn [combine map run step fst snd]. fold (add_ops docs nows).
    destruct (c_add_np n c w d now Hn H) as (c' & Hadd & Hc' & Hmc & _). rewrite Hadd.
    specialize (IH nows c' w Hn Hc' Hl). destruct (run deflate (c', w) (add_ops docs nows)) as [st bs].
    cbn [snd] in *. rewrite IH, Hmc. reflexivity.
Qed.

Theorem unc_nonpos_adds : forall k n fs docs nows, unc_kind k = true -> n <= 0 -> length nows = length docs ->
  snd (run deflate (init_state k n fs) (add_ops docs nows)) = map BAdd (np_answers 0 docs).
Proof.
  intros k n fs docs nows Hk Hn Hl. unfold init_state.
  rewrite (run_adds_np n docs nows _ _ Hn (np_new k n Hk) Hl).
  destruct k; try discriminate Hk; reflexivity.
Qed.

End Kinds.

(* the first document (of whatever shape) and every document with as many
   top-level fields as the first non-empty one is refused as "full", the others
   as "count" *)
Lemma np_answers_head : forall d r, np_answers 0 (d :: r) = RFull :: np_answers (Z.of_nat (length d)) r.
Proof. intros d r. reflexivity. Qed.

Definition np_ex_docs : list doc :=
  [[([120]%N, VInt64 1)]; [([120]%N, VInt64 2); ([121]%N, VInt64 3)]; [([122]%N, VInt64 4)]].

Lemma unc_nonpos_example : forall deflate : bytes -> bytes,
  snd (run deflate (init_state KSDynUncJ (-1) [FError]) (add_ops np_ex_docs [0; 0; 0] ++ [OResolve; OFlush; OInfo])) =
    [BAdd RFull; BAdd RCount; BAdd RFull; BResolve None; BFlush true; BInfo 1 0] /\
  np_answers 0 np_ex_docs = [RFull; RCount; RFull].
Proof. intros deflate. split; vm_compute; reflexivity. Qed.
