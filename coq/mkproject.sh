#!/bin/sh
# regenerate _CoqProject and Makefile from the .v files present (full .vo build, never -vos)
cd "$(dirname "$0")"
{ echo "-R . FV"; echo "-arg -w -arg -notation-overridden,-deprecated-hint-without-locality,-deprecated-instance-without-locality"; find Model Proofs Props Extract Generated Spec -name '*.v' 2>/dev/null | sort; } > _CoqProject.new
if ! cmp -s _CoqProject.new _CoqProject 2>/dev/null || [ ! -f Makefile ]; then
  mv _CoqProject.new _CoqProject
  coq_makefile -f _CoqProject -o Makefile >/dev/null
else
  rm -f _CoqProject.new
fi
