From Coq Require Import ExtrOcamlBasic.
From FV.Model Require Import Glue Bytes Bson Metrics Codec Collector Wf RoundTrip CollectorOk Views Frame Instance Csv CsvOk.
Extraction "csv_model.ml" zadd zmul zopp zeqb zltb z_of_nat z_to_nat z_of_n z_to_n
  enc_doc dec_doc metric_key x_read x_read_stream
  render_int parse_int render_date render_record render_records read_all norm_input read_record
  field_names chunk_records nmetrics write_csv dump_csv cv_docs convert_from_csv
  chunk_int_rows int_rows chunk_types has_date group_by_count count_changes record_ok invisible
  c18_ok_write c18_ok_dump c18_ok_roundtrip rt_applies
  class_lone_empty_key class_key_crlf
  chunk_view model_obs_write model_obs_dump model_obs_convert model_obs_convert_failing.
