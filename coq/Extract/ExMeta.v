From Coq Require Import ExtrOcamlBasic.
From FV.Model Require Import Glue Bytes Bson Metrics Codec Collector Wf RoundTrip CollectorOk Views Instance MetaOk.
Extraction "meta_model.ml" zadd zmul zopp zeqb zltb z_of_nat z_to_nat z_of_n z_to_n
  enc_doc dec_doc dec_docs doc_ok x_new x_step x_read empty_writer norm_ids
  docs_eqb doc_eqb c_info c_resolve enc_stream outp_bytes wrec_bytes log_bytes
  x_structured_all x_flat_all matrix_doc series_doc
  is_meta is_chunkd spec_metas last_meta prefix_before
  flat_items structured_items series_items matrix_items spread
  c11_chunks_ok c11_chunks_pos_ok c11_samples_ok c11_perchunk_ok
  multi_chunk slot_next event_okb trace_okb out_okb drop_meta c11_twin_ok x_run_trace x_chunk_metas ops_erase.
