From Coq Require Import ExtrOcamlBasic.
From FV.Model Require Import Glue SysBuffered.
Extraction "sysbuffered_model.ml" zadd zmul zopp zeqb zltb z_of_nat z_to_nat z_of_n z_to_n
  init step run run_skip quiescent_upto enabledb log hand backed acked hist_of
  trace drainer_accepts emits
  kinit kstep krun nonnil
  c10_ok_sync c10_ok_buffered c10_ok_catcher same_multiset order_ok count acked_nil.
