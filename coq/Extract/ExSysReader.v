From Coq Require Import ExtrOcamlBasic.
From FV.Model Require Import Glue SysReader.
Extraction "sysreader_model.ml" zadd zmul zopp zeqb zltb z_of_n z_to_n z_of_nat z_to_nat
  step run init cfg_of has_failureb errors_registered all_doneb cancelledb buffered cap measure
  sweeps consume any_enabled accepts_local accepted_by_some_role roles
  c05_ok c05_catcher_ok c06_ok c05_model c06_model.
