From Coq Require Import ExtrOcamlBasic.
From FV.Model Require Import Glue Bytes Bson Metrics Codec Collector Wf RoundTrip CollectorOk Views Validate Frame Instance FrameOk.
Extraction "frame_model.ml" zadd zmul zopp zeqb zltb z_of_nat z_to_nat z_of_n z_to_n
  enc_doc dec_doc dec_docs doc_ok strip_doc skeleton_doc flatten_doc metrics_of_doc metric_key schema_sig
  x_new x_step x_read x_structured x_flat x_structured_all x_flat_all empty_writer norm_ids
  c01_ok doc_has_ts_seconds docs_eqb doc_eqb c_info c_resolve deflate_flag inflate_flag enc_stream outp_bytes wrec_bytes log_bytes
  x_decode_ftdc x_c07_run c07_step c08_ok expected_sizes x_read_stream read_docs matrix_doc series_doc chunk_table
  validate read_one doc_bin_ok within at_boundary doc_lens
  c04_ok c04_damaged c09_prefix_ok c09_durable_ok is_short has_short c09_fail_ok c09_final_ok failed_obs x_c09_run emitted.
