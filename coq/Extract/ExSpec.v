From Coq Require Import ExtrOcamlBasic.
From FV.Model Require Import Glue Bytes Bson.
From FV.Spec Require Import FtdcSpec.
Extraction "spec_model.ml" zadd zmul zopp zeqb zltb z_of_nat z_to_nat z_of_n z_to_n
  enc_doc dec_doc dec_docs doc_ok value_ok uvarint_enc wrap64 wrap32 u64 in_i64
  spec_metrics_doc spec_fill_doc spec_doc_has_ts_seconds spec_deltas spec_tokens spec_encode_deltas count_zeros maximal_runs
  spec_class header_exact chunk_id chunk_docs spec_payload canonical_payload
  triv_deflate triv_inflate x_spec_decode_stream x_spec_decode_bytes x_spec_encode x_canonical_chunk item_tables
  c03_encode_verdict c03_encode_ok table_columns table_docs c03_encode_docs_ok self_fill.
