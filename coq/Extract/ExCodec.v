From Coq Require Import ExtrOcamlBasic.
From FV.Model Require Import Glue Bytes Bson Metrics Codec Collector Wf RoundTrip CollectorOk Views Frame Instance.
Extraction "codec_model.ml" zadd zmul zopp zeqb zltb z_of_nat z_to_nat z_of_n z_to_n
  enc_doc dec_doc dec_docs doc_ok strip_doc skeleton_doc flatten_doc metrics_of_doc metric_key schema_sig
  x_new x_step x_read x_structured x_flat x_structured_all x_flat_all empty_writer norm_ids
  c01_ok doc_has_ts_seconds docs_eqb doc_eqb c_info c_resolve deflate_flag inflate_flag enc_stream outp_bytes wrec_bytes log_bytes
  x_decode_ftdc x_c07_run c07_step c08_ok expected_sizes x_read_stream read_docs all_but_last_full all_full matrix_doc series_doc chunk_table uvarint_enc uvarint_dec rle read_deltas undelta.
