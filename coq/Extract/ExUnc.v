From Coq Require Import ExtrOcamlBasic.
From FV.Model Require Import Glue Bytes Bson Metrics Codec Collector CollectorOk Instance UncOk.
Extraction "unc_model.ml" zadd zmul zopp zeqb zltb z_of_nat z_to_nat z_of_n z_to_n
  enc_doc dec_doc dec_docs doc_ok schema_sig doc_eqb docs_eqb
  x_new x_step empty_writer c_info c_resolve deflate_flag wrec_bytes outp_bytes wrec_outp
  unc_kind kind_json pend cmeta split_lines json_stable
  ost0 c17_step check_out view_count view_of view_of_rec x_c17_run.
