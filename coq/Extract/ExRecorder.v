From Coq Require Import ExtrOcamlBasic.
From FV.Model Require Import Glue Hdr Recorder RecorderOk.
Extraction "recorder_model.ml" zadd zmul zopp zeqb zltb z_of_nat z_to_nat
  c15_ok_w c15_ok model_obs observe observe_out spec_outs spec_timers erase run wrun
  counts_pairs counter_cfg timer_cfg accepts_counter accepts_timer hdr_accepts wrap64
  policy_positions persisted_positions.
