From Coq Require Import ExtrOcamlBasic.
From FV.Model Require Import Glue Genny GennyOk.
Extraction "genny_model.ml" zadd zmul zopp zeqb zltb z_of_nat z_to_nat z_of_n z_to_n
  ceil_sec select zeroed translate translate_span workload_start workload_end
  output_chunks get_genny_time
  c20_ok_count c20_ok_shape c20_ok_own c20_ok_out c20_ok_chunks c20_ok_time time_domain
  model_out model_chunk_sizes model_time vals_eqb.
