From Coq Require Import ExtrOcamlBasic.
From FV.Model Require Import Glue Bytes Bson Events EventsOk EventsMore EventsAlias.
Extraction "events_model.ml" zadd zmul zopp zeqb zltb z_of_nat z_to_nat z_of_n z_to_n
  model_obs_run step step_write caller_write init added_of results_of written_of
  c14_ok_cumulative c14_ok_sampling c14_ok_passthrough c14_ok_errors c14_ok_roundtrip
  model_obs_roundtrip model_flat_keys marshal enc_doc time_to_ms ms_to_time perf_wf perf_eqb
  expected_cumulative expected_sampling
  run_interval run_interval2 iinit run_rand interval_mask interval_mask2 rand_mask thin select.
