From Coq Require Import ExtrOcamlBasic.
From FV.Model Require Import Glue Bytes Bson Metrics Codec Collector Wf RoundTrip CollectorOk Instance JsonPipe JsonPipeOk.
Extraction "jsonpipe_model.ml" zadd zmul zopp zeqb zltb z_of_nat z_to_nat z_of_n z_to_n
  enc_doc dec_doc dec_docs doc_ok strip_doc docs_eqb doc_eqb x_decode_ftdc x_read_stream x_structured_all
  scan source json_valid rt_valid
  c19_ok_json c19_timer_class c19_ok_runtime line_bad
  x_json_items x_json_run x_json_calm x_json_timer item_is_doc
  x_runtime r_schedule sample_id zseq.
