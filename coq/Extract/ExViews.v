From Coq Require Import ExtrOcamlBasic.
From FV.Model Require Import Glue Bytes Bson Metrics Codec Collector Wf RoundTrip CollectorOk Views Instance ViewsOk.
Extraction "views_model.ml" zadd zmul zopp zeqb zltb z_of_nat z_to_nat z_of_n z_to_n
  enc_doc dec_doc dec_docs doc_ok flatten_doc metrics_of_doc metric_key join_dot restore_flat
  x_read doc_has_ts_seconds docs_eqb doc_eqb
  chunk_table doc_table matrix_doc series_doc flat_docs structured_docs
  lpaths_doc spec_keys mtype_tag tbl_flat tbl_series tbl_matrix matrix_keys tbl_structured
  slices keys_ok values_ok types_ok obs_table exp_flat exp_structured exp_matrix exp_series
  c02_check parts_all c02_ok model_cobs model_sobs value_eqb sdoc_eqb sdocs_eqb.
