From Coq Require Import ExtrOcamlBasic.
From FV.Model Require Import Glue Hdr HdrOk.
Extraction "hdr_model.ml" zadd zmul zopp zeqb zltb z_of_nat z_to_nat
  c12_ok_v model_obs_v c12_ok_seq model_obs_seq c12_ok_corr model_obs_corr corrected_values geometry point_fns
  hist_equal value_at_rank hmin hmax mean_num merge export import record_all new
  new_windowed rotate w_record w_merge counts_list steps.
