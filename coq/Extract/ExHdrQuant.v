From Coq Require Import ExtrOcamlBasic.
From FV.Model Require Import Glue Hdr HdrQuantOk.
Extraction "hdrq_model.ml" zadd zmul zopp zeqb zltb z_of_nat z_to_nat
  c13_valid op_valid wop_valid isort expect_counts sparse eq_pairs eq_zs
  c13_ok_quant c13_ok_ranks c13_ok_stats model_obs_q
  c13_ok_merge model_merge same_geom op_cfg
  c13_ok_window model_window
  c13_ok_snapshot model_snapshot
  config_of counts_index_for lowest_equiv highest_equiv size_of_range median_equiv
  hist_of hist_equal value_at_rank hmin hmax mean_num merge export import record_all new
  new_windowed rotate w_record w_merge counts_list steps.
