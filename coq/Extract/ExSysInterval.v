From Coq Require Import ExtrOcamlBasic.
From FV.Model Require Import Glue SysInterval.
Extraction "sysinterval_model.ml" zadd zmul zopp zeqb zltb z_of_n z_to_n z_of_nat z_to_nat
  model_obs_sys model_obs_stress c16_ok_sys c16_ok_stress spec_end_samples sys_prog
  wrap64 sumZ.
